//! C19 probe: a freestanding (#![no_std], #![no_main]) program WITHOUT a global allocator that drives stack-backed
//! vectors through the complete operation set.  It links only if the `alloc` crate is not in the dependency graph.
#![no_std]
#![no_main]

use any_vec::any_value::{AnyValue, AnyValueCloneable, AnyValueWrapper};
use any_vec::mem::{Empty, Stack, StackN};
use any_vec::traits::Cloneable;
use any_vec::AnyVec;

#[link(name = "c")]
extern "C" {
    fn abort() -> !;
}

// libcore's precompiled objects reference the unwinder personality symbol; nothing unwinds here (panic = abort)
#[no_mangle]
pub extern "C" fn rust_eh_personality() {}

#[panic_handler]
fn panic(_: &core::panic::PanicInfo) -> ! {
    unsafe { abort() }
}

fn check(c: bool) {
    if !c { unsafe { abort() } }
}

fn eq<M: any_vec::mem::MemBuilder>(v: &AnyVec<dyn Cloneable, M>, want: &[u32]) -> bool {
    v.downcast_ref::<u32>().map(|t| t.as_slice() == want).unwrap_or(false)
}

#[no_mangle]
pub extern "C" fn main(_argc: i32, _argv: *const *const u8) -> i32 {
    let mut v: AnyVec<dyn Cloneable, Stack<64>> = AnyVec::new::<u32>();
    check(v.capacity() == 16);
    v.push(AnyValueWrapper::new(1u32));
    v.push(AnyValueWrapper::new(2u32));
    v.push(AnyValueWrapper::new(4u32));
    v.insert(2, AnyValueWrapper::new(3u32));
    check(eq(&v, &[1, 2, 3, 4]));
    {
        let mut t = v.downcast_mut::<u32>().unwrap();
        t.push(5);
        t.insert(0, 0);
        check(t.remove(0) == 0);
        check(t.pop() == Some(5));
    }
    let mut w: AnyVec<dyn Cloneable, StackN<8, 32>> = v.clone_empty_in(StackN::<8, 32>);
    w.push(v.at(0).lazy_clone());
    w.push(v.swap_remove(0));               // move between vectors without the type
    check(eq(&v, &[4, 2, 3]) && eq(&w, &[1, 1]));
    {
        let e = v.remove(1);
        check(e.downcast::<u32>() == Some(2));
    }
    check(eq(&v, &[4, 3]));
    let c = v.clone();
    check(eq(&c, &[4, 3]));
    {
        let mut d = v.drain(0..1);
        check(d.len() == 1);
        let x = d.next().unwrap();
        check(x.downcast_ref::<u32>() == Some(&4));
    }
    check(eq(&v, &[3]));
    {
        let s = v.splice(0..0, [AnyValueWrapper::new(7u32), AnyValueWrapper::new(8u32)]);
        drop(s);
    }
    check(eq(&v, &[7, 8, 3]));
    let mut sum = 0;
    for e in v.iter() { sum += *e.downcast_ref::<u32>().unwrap(); }
    check(sum == 18);
    for mut e in v.iter_mut() { *e.downcast_mut::<u32>().unwrap() += 1; }
    check(eq(&v, &[8, 9, 4]));
    check(v.get(3).is_none() && v.pop().is_some());
    v.clear();
    check(v.is_empty() && eq(&c, &[4, 3]));
    let z: AnyVec<dyn Cloneable, Empty> = AnyVec::new::<u32>();
    check(z.capacity() == 0 && z.len() == 0);
    // default backend without alloc is Empty
    let d: AnyVec = AnyVec::new::<u32>();
    check(d.capacity() == 0);
    0
}
