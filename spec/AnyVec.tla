------------------------------- MODULE AnyVec -------------------------------
(***************************************************************************)
(* Contract layer for tower120/any_vec: identity-level state, one action   *)
(* per public API step (two-phase operations are two or more steps).       *)
(*                                                                         *)
(* Everything is written as pure operators over an explicit state record   *)
(* `st` and an action record `a`, so that the same definitions serve       *)
(*   - bounded exploration by TLC   (MC_AnyVec:   st' = Apply(st,a,..).st) *)
(*   - trace validation             (TraceAnyVec: Judge(st, event))        *)
(*                                                                         *)
(* Elements are pairs <<id, pay>>: an identity that travels with the value *)
(* and a payload that changes when the value is mutated in place.          *)
(***************************************************************************)
EXTENDS Naturals, Integers, Sequences, FiniteSets, SequencesExt, FiniteSetsExt, VecOps

CONSTANTS Vecs,   \* set of vector names (strings "a", "b", ...)
          Cfg     \* configuration record, see MC_AnyVec / TraceAnyVec

NoH == [k |-> "none"]
IdOf(e) == e[1]
Ids(s)  == [i \in 1..Len(s) |-> s[i][1]]          \* sequence of ids of a sequence of elements
IdSet(s) == {s[i][1] : i \in 1..Len(s)}
Toggle(e) == IF Cfg.ids THEN <<e[1], 1 - e[2]>> ELSE e     \* zero-sized values carry no payload (A9)
Max2(x, y) == IF x >= y THEN x ELSE y

SetV(st, x, r) == [st EXCEPT !.v[x] = r]

(* outcome of one step under the contract *)
Out(st, res, ret, drops) ==
  [st |-> st, res |-> res, ret |-> ret, drops |-> drops, clones |-> <<>>, lat |-> "exact", hint |-> -1, capc |-> <<>>]
OutL(st, res, ret, drops, lat) == [Out(st, res, ret, drops) EXCEPT !.lat = lat]
OutH(st, res, ret, drops, hint) == [Out(st, res, ret, drops) EXCEPT !.hint = hint]

Full(V)  == Cfg.fixed /\ Len(V.el) >= V.cap
(* growth policy used for exploration only; validation adopts the observed capacity *)
GrowCap(cap, need) == IF ~Cfg.trackcap \/ Cfg.fixed THEN cap
                      ELSE IF need <= cap THEN cap ELSE Max2(2 * cap, need)
Quiet(st, x) == st.v[x].alive /\ st.v[x].h.k = "none"

(* A1: an offered value that the call rejects *)
Rejected(st, src, xs) ==
  IF src \in {"raw", "typeless", "sizeless"} THEN Out([st EXCEPT !.ext = @ \o xs], "panic", <<>>, <<>>)
  ELSE Out(st, "panic", <<>>, Ids(xs))

---------------------------------------------------------------------------
(* element-wise operations *)

ApPush(st, a, fr) ==
  LET V == st.v[a.v]  x == <<fr[1], 0>> IN
  IF Full(V) THEN Rejected(st, a.src, <<x>>)
  ELSE Out(SetV(st, a.v, [V EXCEPT !.el = VPush(@, x), !.cap = GrowCap(@, Len(V.el) + 1)]), "ok", <<>>, <<>>)

ApInsert(st, a, fr) ==
  LET V == st.v[a.v]  x == <<fr[1], 0>> IN
  IF a.i > Len(V.el) \/ Full(V) THEN Rejected(st, a.src, <<x>>)
  ELSE Out(SetV(st, a.v, [V EXCEPT !.el = VInsert(@, a.i, x), !.cap = GrowCap(@, Len(V.el) + 1)]), "ok", <<>>, <<>>)

Tmp(op, idx, held, rest, pre) == [k |-> "tmp", op |-> op, idx |-> idx, held |-> held, rest |-> rest, pre |-> pre]

ApPopBegin(st, a) ==
  LET V == st.v[a.v]  n == Len(V.el) IN
  IF n = 0 THEN Out(st, "none", <<>>, <<>>)
  ELSE Out(SetV(st, a.v, [V EXCEPT !.h = Tmp("pop", n - 1, V.el[n], VPop(V.el), V.el)]), "ok", <<V.el[n]>>, <<>>)

ApRemoveBegin(st, a) ==
  LET V == st.v[a.v] IN
  IF a.i >= Len(V.el) THEN Out(st, "panic", <<>>, <<>>)
  ELSE Out(SetV(st, a.v, [V EXCEPT !.h = Tmp("remove", a.i, V.el[a.i + 1], VRemove(V.el, a.i), V.el)]),
           "ok", <<V.el[a.i + 1]>>, <<>>)

ApSwapRemoveBegin(st, a) ==
  LET V == st.v[a.v] IN
  IF a.i >= Len(V.el) THEN Out(st, "panic", <<>>, <<>>)
  ELSE Out(SetV(st, a.v, [V EXCEPT !.h = Tmp("swap_remove", a.i, V.el[a.i + 1], VSwapRemove(V.el, a.i), V.el)]),
           "ok", <<V.el[a.i + 1]>>, <<>>)

(* a value `x` leaves its holder and goes to `sink`; `st0` is the state with the holder already updated. *)
(* sink.k in drop | ext | push | insert | forget | keep (keep is handled by callers that support it)       *)
Sink(st0, x, sink) ==
  CASE sink.k = "drop"   -> Out(st0, "ok", <<x>>, <<x[1]>>)
    [] sink.k = "ext"    -> Out([st0 EXCEPT !.ext = Append(@, x)], "ok", <<x>>, <<>>)
    [] sink.k = "forget" -> Out([st0 EXCEPT !.leaked = @ \cup {x[1]}], "ok", <<x>>, <<>>)
    [] sink.k = "push"   ->
         LET W == st0.v[sink.to] IN
         IF Full(W) THEN Out(st0, "panic", <<x>>, <<x[1]>>)
         ELSE Out(SetV(st0, sink.to, [W EXCEPT !.el = VPush(@, x), !.cap = GrowCap(@, Len(W.el) + 1)]), "ok", <<x>>, <<>>)
    [] sink.k = "insert" ->
         LET W == st0.v[sink.to] IN
         IF sink.i > Len(W.el) \/ Full(W) THEN Out(st0, "panic", <<x>>, <<x[1]>>)
         ELSE Out(SetV(st0, sink.to, [W EXCEPT !.el = VInsert(@, sink.i, x), !.cap = GrowCap(@, Len(W.el) + 1)]), "ok", <<x>>, <<>>)

SinkTargetOk(st, x, sink) ==
  IF sink.k \in {"push", "insert"} THEN sink.to # x /\ sink.to \in Vecs /\ Quiet(st, sink.to) ELSE TRUE

ApConsume(st, a) ==
  LET V == st.v[a.v]  H == V.h
      base == SetV(st, a.v, [V EXCEPT !.el = H.rest, !.h = NoH]) IN
  IF a.sink.k = "forget"
  THEN (* A3: policy = truncate at the operation index; everything from there on is leaked *)
       OutL([SetV(st, a.v, [V EXCEPT !.el = SubSeq(H.pre, 1, H.idx), !.h = NoH])
               EXCEPT !.leaked = @ \cup IdSet(SubSeq(H.pre, H.idx + 1, Len(H.pre)))],
            "ok", <<>>, <<>>, "forget")
  ELSE Sink(base, H.held, a.sink)

ApHMutate(st, a) ==
  LET V == st.v[a.v] IN
  Out(SetV(st, a.v, [V EXCEPT !.h.held = Toggle(@)]), "ok", <<Toggle(V.h.held)>>, <<>>)

(* typed (statically typed view) removal: atomic; the value goes to a.sink in {drop, ext} *)
ApTyped(st, a) ==
  LET V == st.v[a.v]  n == Len(V.el) IN
  CASE a.op = "tpop" ->
         IF n = 0 THEN Out(st, "none", <<>>, <<>>)
         ELSE Sink(SetV(st, a.v, [V EXCEPT !.el = VPop(@)]), V.el[n], a.sink)
    [] a.op = "tremove" ->
         IF a.i >= n THEN Out(st, "panic", <<>>, <<>>)
         ELSE Sink(SetV(st, a.v, [V EXCEPT !.el = VRemove(@, a.i)]), V.el[a.i + 1], a.sink)
    [] a.op = "tswap_remove" ->
         IF a.i >= n THEN Out(st, "panic", <<>>, <<>>)
         ELSE Sink(SetV(st, a.v, [V EXCEPT !.el = VSwapRemove(@, a.i)]), V.el[a.i + 1], a.sink)

ApClear(st, a) ==
  LET V == st.v[a.v] IN Out(SetV(st, a.v, [V EXCEPT !.el = <<>>]), "ok", <<>>, Ids(V.el))

PanickingGet == {"at", "at_mut", "tat", "tat_mut"}
ApGet(st, a) ==
  LET V == st.v[a.v] IN
  IF a.i >= Len(V.el) THEN Out(st, IF a.kind \in PanickingGet THEN "panic" ELSE "none", <<>>, <<>>)
  ELSE Out(st, "ok", <<V.el[a.i + 1]>>, <<>>)

ApMutate(st, a) ==
  LET V == st.v[a.v] IN
  IF a.i >= Len(V.el) THEN Out(st, "none", <<>>, <<>>)
  ELSE Out(SetV(st, a.v, [V EXCEPT !.el[a.i + 1] = Toggle(@)]), "ok", <<Toggle(V.el[a.i + 1])>>, <<>>)

ApExtDrop(st, a) ==
  LET n == Len(st.ext) IN
  Out([st EXCEPT !.ext = SubSeq(@, 1, n - 1)], "ok", <<>>, <<st.ext[n][1]>>)

---------------------------------------------------------------------------
(* capacity management (C10).  A request n >= Huge stands for usize::MAX - (maxu - n).  The outcome carries an   *)
(* explicit capacity constraint `capc` = << [v, lo, hi] >>: lo <= capacity' (and capacity' <= hi unless hi = -1); *)
(* lo = hi = -2 means: capacity, storage block and allocator untouched.                                          *)
Huge == Cfg.maxu - 8
Unrep(len, n) == n >= Huge /\ (len + n > Cfg.maxu \/ Cfg.esz > 0)
CapC(v, lo, hi) == << [v |-> v, lo |-> lo, hi |-> hi] >>
Min2(x, y) == IF x <= y THEN x ELSE y

ApReserve(st, a) ==
  LET V == st.v[a.v]  len == Len(V.el)  need == len + a.n IN
  IF Unrep(len, a.n) THEN [Out(st, "panic", <<>>, <<>>) EXCEPT !.capc = CapC(a.v, -2, -2)]
  ELSE IF need <= V.cap THEN [Out(st, "ok", <<>>, <<>>) EXCEPT !.capc = CapC(a.v, -2, -2)]
  ELSE [Out(SetV(st, a.v, [V EXCEPT !.cap = IF ~Cfg.trackcap THEN @ ELSE IF a.op = "reserve" THEN Max2(2 * @, need) ELSE need]),
            "ok", <<>>, <<>>) EXCEPT !.capc = CapC(a.v, need, -1)]

ApShrink(st, a) ==
  LET V == st.v[a.v]  len == Len(V.el)
      target == IF a.op = "shrink_to_fit" THEN len ELSE Max2(len, a.n) IN
  IF target >= V.cap THEN [Out(st, "ok", <<>>, <<>>) EXCEPT !.capc = CapC(a.v, -2, -2)]
  ELSE [Out(SetV(st, a.v, [V EXCEPT !.cap = IF Cfg.trackcap THEN target ELSE @]), "ok", <<>>, <<>>)
          EXCEPT !.capc = CapC(a.v, target, IF Cfg.backend = "heap" THEN target ELSE V.cap)]

(* drop the vector and build a fresh one with_capacity(n) *)
ApRecreate(st, a) ==
  LET V == st.v[a.v] IN
  [Out(SetV(st, a.v, [V EXCEPT !.el = <<>>, !.cap = IF Cfg.trackcap THEN a.n ELSE @]), "ok", <<>>, Ids(V.el))
     EXCEPT !.capc = CapC(a.v, a.n, -1)]

---------------------------------------------------------------------------
(* clone family (C08) and lazy clones (C09).  `fr` supplies the identities of the clones in the order the contract *)
(* lists them (exploration: fresh numbers; validation: taken from the clone callbacks of the event).              *)

(* a.v.clone() replaces the vector in slot a.to (whose old contents are destroyed) *)
ApCloneVec(st, a, fr) ==
  LET V == st.v[a.v]  W == st.v[a.to]
      cl == [i \in 1..Len(V.el) |-> <<fr[i], V.el[i][2]>>] IN
  IF Cfg.fixed /\ Len(V.el) > W.cap THEN OutL(st, "panic", <<>>, <<>>, "panic")
  ELSE [Out(SetV(st, a.to, [W EXCEPT !.el = cl, !.gen = 1, !.cap = IF Cfg.trackcap THEN Len(cl) ELSE @]), "ok", <<>>, Ids(W.el))
          EXCEPT !.clones = Ids(V.el), !.capc = CapC(a.to, Len(cl), -1)]

(* the source value of a lazy clone: an element reference, the value held by a removal handle, a kept drained item *)
LazySrc(st, a) ==
  LET V == st.v[a.v] IN
  CASE a.kind = "elem"   -> V.el[a.i + 1]
    [] a.kind = "handle" -> V.h.held
    [] a.kind = "item"   -> V.h.out[a.i + 1]

(* a lazy clone chain of depth a.depth is created from the source, copied and consumed a.n times into a.sink, then  *)
(* dropped.  Creating, copying and dropping clone nothing; each consumption clones the ROOT source exactly once.     *)
ApLazy(st, a, fr) ==
  LET x == LazySrc(st, a)
      news == [j \in 1..a.n |-> <<fr[j], x[2]>>]
      W == st.v[a.sink.to]
      srcs == [j \in 1..a.n |-> x[1]]
      grown == IF a.sink.k = "ext" THEN 0 ELSE IF a.sink.k = "splice" THEN Len(W.el) - (a.sink.e - a.sink.s) + a.n ELSE Len(W.el) + a.n
  IN
  IF a.n = 0 /\ a.sink.k # "splice" THEN Out(st, "ok", <<>>, <<>>)    \* created, copied, dropped: nothing may happen
  ELSE IF a.sink.k = "ext"
  THEN [Out([st EXCEPT !.ext = @ \o news], "ok", news, <<>>) EXCEPT !.clones = srcs]
  ELSE IF Cfg.fixed /\ grown > W.cap THEN OutL(st, "panic", <<>>, <<>>, "panic")
  ELSE CASE a.sink.k = "push" ->
              [Out(SetV(st, a.sink.to, [W EXCEPT !.el = @ \o news, !.cap = GrowCap(@, Len(W.el) + a.n)]), "ok", <<>>, <<>>)
                 EXCEPT !.clones = srcs]
         [] a.sink.k = "insert" ->
              IF a.sink.i > Len(W.el) /\ a.n > 0 THEN Out(st, "panic", <<>>, <<>>)      \* rejected before any clone is made
              ELSE [Out(SetV(st, a.sink.to, [W EXCEPT !.el = SubSeq(@, 1, a.sink.i) \o Rev(news) \o SubSeq(@, a.sink.i + 1, Len(@)),
                                                      !.cap = GrowCap(@, Len(W.el) + a.n)]), "ok", <<>>, <<>>)
                      EXCEPT !.clones = srcs]
         [] a.sink.k = "splice" ->
              [Out(SetV(st, a.sink.to, [W EXCEPT !.el = VSplice(@, a.sink.s, a.sink.e, news), !.cap = GrowCap(@, grown)]),
                   "ok", <<>>, Ids(SubSeq(W.el, a.sink.s + 1, a.sink.e)))
                 EXCEPT !.clones = srcs]

(* clone_empty / clone_empty_in(backend) probe: the empty twin accepts a fresh value and (if cloneable) a lazy clone *)
(* of the source's first element, is itself cloned and everything created is destroyed again; the source is unchanged *)
ApCeProbe(st, a) == Out(st, "ok", <<>>, <<>>)
(* element_clone()/element_drop() called directly: one clone of element i into scratch memory, destroyed again; ret = the clone *)
ApFnPtrs(st, a, fr) == [Out(st, "ok", << <<fr[1], st.v[a.v].el[a.i + 1][2]>> >>, <<fr[1]>>) EXCEPT !.clones = <<st.v[a.v].el[a.i + 1][1]>>]
(* Debug of the erased vector reports its length *)
ApDebug(st, a) == Out(st, "ok", << <<Len(st.v[a.v].el), 0>> >>, <<>>)

---------------------------------------------------------------------------
(* raw parts (C17): decomposing and rebuilding changes nothing, destroys nothing, touches no storage *)
ApRaw(st, a) == [Out(SetV(st, a.v, [st.v[a.v] EXCEPT !.gen = 1]), "ok", <<>>, <<>>) EXCEPT !.capc = CapC(a.v, -2, -2)]

(* wrong runtime type (C04): push / insert / element swap reject the value (panic, vector unchanged, the offered value is  *)
(* destroyed exactly once - it is the driver's first fresh identity); a splice with a mismatching item is only "valid"     *)
ApWrong(st, a, fr) ==
  IF a.op = "splice_wrong"
  THEN OutL(st, "panic", <<>>, <<>>, "panic")
  ELSE Out(st, "panic", <<>>, IF a.ty = "Y8" THEN <<>> ELSE <<fr[1]>>)      \* Y8 has no drop glue: its destruction is not observable

(* a removal handle of a vector of ANOTHER element type offered to push/insert (A1): rejected; the handle is dropped, which     *)
(* completes the removal on the handle's own vector.  fr[1] = the other vector's single element (destroyed with it either way). *)
(* ret = that other vector's length at the end: 0 when its element was popped (into_v), 1 -> the element is destroyed with it.  *)
ApCrossWrong(st, a, fr) ==
  LET V == st.v[a.v]  n == Len(V.el) IN
  IF a.dir = "into_v"
  THEN Out(st, "panic", << <<0, 0>> >>, <<fr[1]>>)
  ELSE Out(SetV(st, a.v, [V EXCEPT !.el = VPop(@)]), "panic", << <<1, 0>> >>, <<V.el[n][1], fr[1]>>)

(* downcast queries succeed exactly when the requested type is the real one *)
ApDowncastQ(st, a) == Out(st, IF a.ty = "real" THEN "ok" ELSE "none", <<>>, <<>>)

(* element swap (C13): exactly the two values are exchanged, whatever kinds of handles hold them *)
ApSwap(st, a, fr) ==
  LET V == st.v[a.v]  e1 == V.el[a.i + 1] IN
  CASE a.with = "elem" ->
         LET W == st.v[a.to]  e2 == W.el[a.j + 1] IN
         Out(SetV(SetV(st, a.v, [V EXCEPT !.el[a.i + 1] = e2]), a.to, [W EXCEPT !.el[a.j + 1] = e1]), "ok", <<>>, <<>>)
    [] a.with = "handle" ->
         LET W == st.v[a.to] IN
         Out(SetV(SetV(st, a.v, [V EXCEPT !.el[a.i + 1] = W.h.held]), a.to, [W EXCEPT !.h.held = e1, !.h.pre[W.h.idx + 1] = e1]), "ok", <<>>, <<>>)
    [] a.with \in {"wrapper", "typed"} ->
         Out([SetV(st, a.v, [V EXCEPT !.el[a.i + 1] = <<fr[1], 0>>]) EXCEPT !.ext = Append(@, e1)], "ok", <<>>, <<>>)
    [] a.with = "raw" ->
         LET n == Len(st.ext) IN
         Out([SetV(st, a.v, [V EXCEPT !.el[a.i + 1] = st.ext[n]]) EXCEPT !.ext[n] = e1], "ok", <<>>, <<>>)

(* values written into spare capacity become exactly the new tail after set_len (C12) *)
ApSpareWrite(st, a, fr) ==
  LET V == st.v[a.v] IN
  [Out(SetV(st, a.v, [V EXCEPT !.el = @ \o [j \in 1..a.k |-> <<fr[j], 0>>]]), "ok", <<>>, <<>>) EXCEPT !.capc = CapC(a.v, -2, -2)]

(* the vector object placed at another address: the storage base (typed and byte view) stays aligned for the element (C12) *)
ApPlace(st, a) == Out(st, "ok", << <<0, 0>> >>, <<>>)

(* a run of a.n pushes (amortisation, C10): fr[1] is the first identity of the run *)
ApPushMany(st, a, fr) ==
  LET V == st.v[a.v] IN
  Out(SetV(st, a.v, [V EXCEPT !.el = @ \o [j \in 1..a.n |-> <<IF Cfg.ids THEN fr[1] + j - 1 ELSE 0, 0>>],
                              !.cap = GrowCap(@, Len(V.el) + a.n)]), "ok", <<>>, <<>>)

---------------------------------------------------------------------------
(* drain / splice *)

Rng(op, s, e, pre, repl, owned, path, delta) ==
  [k |-> "range", op |-> op, s |-> s, e |-> e, f |-> 0, b |-> 0, pre |-> pre, repl |-> repl,
   owned |-> owned, out |-> <<>>, path |-> path, delta |-> delta]   \* delta # 0: the replacement iterator misreports its length

ApDrainBegin(st, a) ==
  LET V == st.v[a.v]
      r == IntoRange(Len(V.el), a.sk, a.sv, a.ek, a.ev, Cfg.maxu) IN
  IF ~r.ok THEN Out(st, "panic", <<>>, <<>>)
  ELSE Out(SetV(st, a.v, [V EXCEPT !.h = Rng("drain", r.s, r.e, V.el, <<>>, TRUE, a.path, 0)]), "ok", <<>>, <<>>)

ApSpliceBegin(st, a, fr) ==
  LET V == st.v[a.v]
      r == IntoRange(Len(V.el), a.sk, a.sv, a.ek, a.ev, Cfg.maxu)
      repl == [j \in 1..a.n |-> <<fr[j], 0>>] IN
  IF ~r.ok THEN Rejected(st, a.src, repl)
  ELSE Out(SetV(st, a.v, [V EXCEPT !.h = Rng("splice", r.s, r.e, V.el, repl, a.src # "raw", a.path, a.delta)]), "ok", <<>>, <<>>)

Remaining(H) == H.e - H.s - H.f - H.b

ApNext(st, a) ==
  LET V == st.v[a.v]  H == V.h IN
  IF Remaining(H) = 0 THEN OutH(st, "none", <<>>, <<>>, 0)
  ELSE LET x  == IF a.end = "front" THEN H.pre[H.s + H.f + 1] ELSE H.pre[H.e - H.b]
           H2 == IF a.end = "front" THEN [H EXCEPT !.f = @ + 1] ELSE [H EXCEPT !.b = @ + 1]
           st0 == SetV(st, a.v, [V EXCEPT !.h = H2])
       IN IF a.sink.k = "keep"
          THEN OutH(SetV(st, a.v, [V EXCEPT !.h = [H2 EXCEPT !.out = Append(@, x)]]), "ok", <<x>>, <<>>, Remaining(H2))
          ELSE [Sink(st0, x, a.sink) EXCEPT !.hint = Remaining(H2)]

(* a kept item (yielded earlier, still alive) is consumed; a.k is its 1-based position among the kept items *)
ApItemConsume(st, a) ==
  LET V == st.v[a.v]  H == V.h
      x == H.out[a.k]
      out2 == SubSeq(H.out, 1, a.k - 1) \o SubSeq(H.out, a.k + 1, Len(H.out))
      H2 == IF H.k = "items" /\ out2 = <<>> THEN NoH ELSE [H EXCEPT !.out = out2]
  IN Sink(SetV(st, a.v, [V EXCEPT !.h = H2]), x, a.sink)

AfterRange(H) == IF H.out = <<>> THEN NoH ELSE [k |-> "items", out |-> H.out]

ApRangeDrop(st, a) ==
  LET V == st.v[a.v]  H == V.h
      rest  == SubSeq(H.pre, H.s + H.f + 1, H.e - H.b)
      newel == VSplice(H.pre, H.s, H.e, H.repl)
      ok    == ~(Cfg.fixed /\ Len(newel) > V.cap)
  IN IF H.delta # 0
     THEN (* C06: a replacement iterator that lies about its length must not corrupt the vector; what exactly is left is *)
          (* not specified (A4): exploration continues from "the range removed, the replacement inserted"              *)
          OutL(SetV(st, a.v, [V EXCEPT !.el = newel, !.h = AfterRange(H), !.cap = GrowCap(@, Len(newel))]), "ok", <<>>, Ids(rest), "liar")
     ELSE IF ok
     THEN Out(SetV(st, a.v, [V EXCEPT !.el = newel, !.h = AfterRange(H), !.cap = GrowCap(@, Len(newel))]),
              "ok", <<>>, Ids(rest))
     ELSE (* A4: beyond a fixed capacity the call panics and the vector is "still valid"; policy for *)
          (* exploration: the prefix before the range survives, the rest is leaked or destroyed      *)
          OutL([SetV(st, a.v, [V EXCEPT !.el = SubSeq(H.pre, 1, H.s), !.h = AfterRange(H)])
                  EXCEPT !.leaked = @ \cup IdSet(SubSeq(H.pre, H.e + 1, Len(H.pre)))],
               "panic", <<>>, Ids(rest) \o Ids(H.repl), "panic")

ApRangeForget(st, a) ==
  LET V == st.v[a.v]  H == V.h
      rest == SubSeq(H.pre, H.s + H.f + 1, H.e - H.b)
      tail == SubSeq(H.pre, H.e + 1, Len(H.pre))
  IN OutL([SetV(st, a.v, [V EXCEPT !.el = SubSeq(H.pre, 1, H.s), !.h = AfterRange(H)])
             EXCEPT !.leaked = @ \cup IdSet(rest) \cup IdSet(tail) \cup IdSet(H.repl)],
          "ok", <<>>, <<>>, "forget")

---------------------------------------------------------------------------
(* shared / exclusive element iterators (iter, iter_mut and the typed slice iterators) *)

ApIterBegin(st, a) ==
  LET V == st.v[a.v] IN
  OutH(SetV(st, a.v, [V EXCEPT !.h = [k |-> "iter", kind |-> a.kind, its |-> << [i |-> 0, e |-> Len(V.el)] >>]]),
       "ok", <<>>, <<>>, Len(V.el))

ApIterNext(st, a) ==
  LET V == st.v[a.v]  H == V.h  it == H.its[a.k] IN
  IF it.i = it.e THEN OutH(st, "none", <<>>, <<>>, 0)
  ELSE IF a.end = "front"
       THEN OutH(SetV(st, a.v, [V EXCEPT !.h.its[a.k].i = @ + 1]), "ok", <<V.el[it.i + 1]>>, <<>>, it.e - it.i - 1)
       ELSE OutH(SetV(st, a.v, [V EXCEPT !.h.its[a.k].e = @ - 1]), "ok", <<V.el[it.e]>>, <<>>, it.e - it.i - 1)

ApIterClone(st, a) ==
  LET V == st.v[a.v]  H == V.h  it == H.its[a.k] IN
  OutH(SetV(st, a.v, [V EXCEPT !.h.its = Append(@, it)]), "ok", <<>>, <<>>, it.e - it.i)

ApIterEnd(st, a) ==
  LET V == st.v[a.v] IN Out(SetV(st, a.v, [V EXCEPT !.h = NoH]), "ok", <<>>, <<>>)

---------------------------------------------------------------------------
Apply(st, a, fr) ==
  CASE a.op = "push"               -> ApPush(st, a, fr)
    [] a.op = "insert"             -> ApInsert(st, a, fr)
    [] a.op = "pop_begin"          -> ApPopBegin(st, a)
    [] a.op = "remove_begin"       -> ApRemoveBegin(st, a)
    [] a.op = "swap_remove_begin"  -> ApSwapRemoveBegin(st, a)
    [] a.op = "consume"            -> ApConsume(st, a)
    [] a.op = "hmutate"            -> ApHMutate(st, a)
    [] a.op \in {"tpop", "tremove", "tswap_remove"} -> ApTyped(st, a)
    [] a.op = "clear"              -> ApClear(st, a)
    [] a.op = "get"                -> ApGet(st, a)
    [] a.op = "mutate"             -> ApMutate(st, a)
    [] a.op = "ext_drop"           -> ApExtDrop(st, a)
    [] a.op = "drain_begin"        -> ApDrainBegin(st, a)
    [] a.op = "splice_begin"       -> ApSpliceBegin(st, a, fr)
    [] a.op = "next"               -> ApNext(st, a)
    [] a.op = "item_consume"       -> ApItemConsume(st, a)
    [] a.op = "range_drop"         -> ApRangeDrop(st, a)
    [] a.op = "range_forget"       -> ApRangeForget(st, a)
    [] a.op = "iter_begin"         -> ApIterBegin(st, a)
    [] a.op = "iter_next"          -> ApIterNext(st, a)
    [] a.op = "iter_clone"         -> ApIterClone(st, a)
    [] a.op = "iter_end"           -> ApIterEnd(st, a)
    [] a.op \in {"reserve", "reserve_exact"} -> ApReserve(st, a)
    [] a.op \in {"shrink_to_fit", "shrink_to"} -> ApShrink(st, a)
    [] a.op = "recreate"           -> ApRecreate(st, a)
    [] a.op = "clone_vec"          -> ApCloneVec(st, a, fr)
    [] a.op = "lazy"               -> ApLazy(st, a, fr)
    [] a.op = "ce_probe"           -> ApCeProbe(st, a)
    [] a.op = "fn_ptrs"            -> ApFnPtrs(st, a, fr)
    [] a.op = "debug"              -> ApDebug(st, a)
    [] a.op = "raw_roundtrip"      -> ApRaw(st, a)
    [] a.op \in {"push_wrong", "insert_wrong", "swap_wrong", "splice_wrong"} -> ApWrong(st, a, fr)
    [] a.op = "downcast_q"         -> ApDowncastQ(st, a)
    [] a.op = "cross_wrong"        -> ApCrossWrong(st, a, fr)
    [] a.op = "swap"               -> ApSwap(st, a, fr)
    [] a.op = "spare_write"        -> ApSpareWrite(st, a, fr)
    [] a.op = "place"              -> ApPlace(st, a)
    [] a.op = "push_many"          -> ApPushMany(st, a, fr)

(* Is the action applicable at all (borrow discipline; which handle must be present)?  A trace event  *)
(* that is not applicable is a tool error of the driver, not a verdict about the implementation.      *)
Applicable(st, a) ==
  LET hk == st.v[a.v].h.k IN
  /\ a.v \in Vecs /\ st.v[a.v].alive
  /\ CASE a.op \in {"push", "insert", "pop_begin", "remove_begin", "swap_remove_begin", "tpop", "tremove",
                    "tswap_remove", "clear", "get", "mutate", "drain_begin", "splice_begin", "iter_begin",
                    "reserve", "reserve_exact", "shrink_to_fit", "shrink_to", "recreate"} -> hk = "none"
       [] a.op \in {"consume", "hmutate"} -> hk = "tmp" /\ SinkTargetOk(st, a.v, IF a.op = "consume" THEN a.sink ELSE [k |-> "drop"])
       [] a.op \in {"next", "range_drop", "range_forget"} -> hk = "range" /\ (a.op # "next" \/ SinkTargetOk(st, a.v, a.sink))
       [] a.op = "item_consume" -> hk \in {"range", "items"} /\ a.k \in 1..Len(st.v[a.v].h.out) /\ SinkTargetOk(st, a.v, a.sink)
       [] a.op \in {"iter_next", "iter_clone"} -> hk = "iter" /\ a.k \in 1..Len(st.v[a.v].h.its)
       [] a.op = "iter_end" -> hk = "iter"
       [] a.op = "ext_drop" -> st.ext # <<>>
       [] a.op = "clone_vec" -> hk = "none" /\ a.to \in Vecs /\ a.to # a.v /\ Quiet(st, a.to)
       [] a.op \in {"ce_probe", "debug"} -> hk = "none"
       [] a.op = "fn_ptrs" -> hk = "none" /\ a.i < Len(st.v[a.v].el)
       [] a.op \in {"raw_roundtrip", "push_wrong", "insert_wrong", "splice_wrong", "place", "push_many"} -> hk = "none"
       [] a.op = "swap_wrong" -> hk = "none" /\ a.i < Len(st.v[a.v].el)
       [] a.op = "cross_wrong" -> hk = "none" /\ (a.dir = "from_v" => st.v[a.v].el # <<>>)
       [] a.op = "spare_write" -> hk = "none" /\ Len(st.v[a.v].el) + a.k <= st.v[a.v].cap
       [] a.op = "downcast_q" ->
            CASE a.what \in {"vec_ref", "vec_mut"} -> hk = "none"
              [] a.what \in {"elem_ref", "elem_mut"} -> hk = "none" /\ a.i < Len(st.v[a.v].el)
              [] a.what = "handle" -> hk = "tmp"
              [] OTHER -> FALSE
       [] a.op = "swap" ->
            /\ hk = "none" /\ a.i < Len(st.v[a.v].el)
            /\ CASE a.with = "elem" -> a.to \in Vecs /\ a.to # a.v /\ Quiet(st, a.to) /\ a.j < Len(st.v[a.to].el)
                 [] a.with = "handle" -> a.to \in Vecs /\ a.to # a.v /\ st.v[a.to].h.k = "tmp"
                 [] a.with = "raw" -> st.ext # <<>>
                 [] OTHER -> TRUE
       [] a.op = "lazy" ->
            /\ CASE a.kind = "elem" -> hk = "none" /\ a.i < Len(st.v[a.v].el)
                 [] a.kind = "handle" -> hk = "tmp"
                 [] a.kind = "item" -> hk \in {"range", "items"} /\ a.i < Len(st.v[a.v].h.out)
            /\ (a.sink.k = "ext" \/ (a.sink.to \in Vecs /\ a.sink.to # a.v /\ Quiet(st, a.sink.to)))
            /\ (a.sink.k = "splice" => a.sink.s <= a.sink.e /\ a.sink.e <= Len(st.v[a.sink.to].el))
       [] OTHER -> FALSE

---------------------------------------------------------------------------
(* Ownership: where every live identity is.  (C03) *)

HandleElems(H) ==
  CASE H.k = "tmp"   -> <<H.held>> \o H.rest
    [] H.k = "range" -> SubSeq(H.pre, 1, H.s) \o SubSeq(H.pre, H.s + H.f + 1, H.e - H.b)   \* not yet yielded
                        \o SubSeq(H.pre, H.e + 1, Len(H.pre)) \o H.out \o H.repl              \* tail, kept items, replacement
    [] H.k = "items" -> H.out
    [] OTHER         -> <<>>

(* all element occurrences: for a vector with a tmp/range handle the handle's view replaces el *)
VecElems(V) == IF V.h.k \in {"tmp", "range"} THEN HandleElems(V.h)
               ELSE V.el \o HandleElems(V.h)

RECURSIVE Concat(_)
Concat(ss) == IF ss = <<>> THEN <<>> ELSE Head(ss) \o Concat(Tail(ss))

VecOrder == SetToSeq(Vecs)   \* any fixed order
AllElems(st) == Concat([i \in 1..Len(VecOrder) |-> VecElems(st.v[VecOrder[i]])]) \o st.ext

NoDup(s) == Cardinality({s[i] : i \in 1..Len(s)}) = Len(s)

WF(st) ==
  LET ids == Ids(AllElems(st)) IN
  \/ ~Cfg.ids
  \/ /\ NoDup(ids)
     /\ \A i \in 1..Len(ids) : ids[i] \notin st.leaked

(* the smallest n natural numbers >= 1 not used by any live or leaked identity (exploration) *)
UsedIds(st) == IdSet(AllElems(st)) \cup st.leaked
RECURSIVE FreshFrom(_, _, _)
FreshFrom(used, k, n) == IF n = 0 THEN <<>>
                         ELSE IF k \in used THEN FreshFrom(used, k + 1, n)
                         ELSE <<k>> \o FreshFrom(used, k + 1, n - 1)
Fresh(st, n) == FreshFrom(UsedIds(st), 1, n)

(* `gen` marks a vector object that was produced by clone() or rebuilt from raw parts (1) rather than constructed (0): it has  *)
(* no contract meaning, but keeps such states apart in the exploration so that every operation is also replayed on them    *)
Init0 == [v |-> [x \in Vecs |-> [alive |-> TRUE, el |-> <<>>, cap |-> IF Cfg.fixed THEN Cfg.fcap ELSE 0, h |-> NoH, gen |-> 0]],
          ext |-> <<>>, leaked |-> {}]
=============================================================================
