----------------------------- MODULE StackGrid -----------------------------
(***************************************************************************)
(* C11: the capacity formula of Stack<SIZE> and the build rule of          *)
(* StackN<N, SIZE>, judged by TLC on the observations of the harness'      *)
(* `buildgrid` command (SIZE and N on a grid around multiples of the       *)
(* element size, element sizes 0, 3, 8, 24).                               *)
(***************************************************************************)
EXTENDS Naturals, Integers, Sequences, FiniteSets, TLC, Json, IOUtils

Obs == ndJsonDeserialize(IOEnv.GRID)
Unbounded == 1000000000          \* the harness clamps usize::MAX to this

Expect(o) ==
  IF o.kind = "stack"
  THEN [res |-> "ok", cap |-> IF o.esz = 0 THEN Unbounded ELSE o.size \div o.esz]      \* SIZE / size_of::<T>(), unbounded for ZST
  ELSE IF o.n * o.esz <= o.size THEN [res |-> "ok", cap |-> o.n]                         \* capacity N ...
  ELSE [res |-> "panic", cap |-> -1]                                                     \* ... construction panics when N elements do not fit

Bad == {i \in 1..Len(Obs) : Expect(Obs[i]).res # Obs[i].res \/ Expect(Obs[i]).cap # Obs[i].cap}

VARIABLE i
Init == i \in 1..Len(Obs)
Next == UNCHANGED i
Report == i \in Bad => PrintT(ToJson([obs |-> Obs[i], expect |-> Expect(Obs[i])]))
=============================================================================
