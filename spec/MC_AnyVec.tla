----------------------------- MODULE MC_AnyVec -----------------------------
(***************************************************************************)
(* Bounded exploration of the contract.  TLC enumerates every (state,      *)
(* action instance) pair inside the bounds; each generated transition is   *)
(* printed as the action path that reaches it (history variable `path`,    *)
(* hidden from the fingerprint by VIEW), which the Rust harness replays.   *)
(***************************************************************************)
EXTENDS AnyVec, Json, TLC, TLCExt

CONSTANTS Alpha,      \* set of enabled operation names
          MaxLen, MaxLenB, MaxExt, MaxOut, MaxRepl, MaxIters,
          MaxCap,     \* bound on the modelled capacity (models that track capacity)
          MaxLazyDepth, MaxLazyN, PushManyN,
          OneHandle,  \* TRUE: at most one vector has an outstanding handle at a time (bounds the product space)
          SinkKinds,  \* value-sink kinds explored: subset of {"drop","ext","push","insert","forget"}
          Srcs,       \* value-source kinds for push/insert/splice: subset of {"wrapper","raw","typed"}
          Forms       \* RangeBounds forms: subset of {"x..y","x..=y","..y","..=y","x..","..","x<..y","x<..=y","x<.."}

(* configuration classes for exploration (the trace validator takes Cfg from the trace header) *)
CfgHeap    == [fixed |-> FALSE, fcap |-> 0, ids |-> TRUE, drop |-> TRUE, trackcap |-> FALSE, maxu |-> 1000000,
               esz |-> 8, backend |-> "heap", alloc |-> TRUE]
CfgHeapCap == [CfgHeap EXCEPT !.trackcap = TRUE]
CfgFixed2  == [CfgHeap EXCEPT !.fixed = TRUE, !.fcap = 2]
CfgFixed3  == [CfgHeap EXCEPT !.fixed = TRUE, !.fcap = 3]
CfgFixed0  == [CfgHeap EXCEPT !.fixed = TRUE, !.fcap = 0]

VARIABLES st,    \* the contract state
          nid,   \* number of the transition that first reached this state (hidden from the fingerprint by VIEW)
          last   \* the action of that transition (hidden as well)
vars == <<st, nid, last>>

S(k, to, i) == [k |-> k, to |-> to, i |-> i]
Len0(x) == Len(st.v[x].el)
CapOf(x) == IF x = "a" THEN MaxLen ELSE MaxLenB    \* exploration bound on the length of each vector

Sinks(x, kinds0) ==
  LET kinds == kinds0 \cap (SinkKinds \cup {"keep"}) IN
  {S(k, "", 0) : k \in kinds \cap ({"drop", "forget", "keep"} \cup IF Len(st.ext) < MaxExt THEN {"ext"} ELSE {})}
  \cup (IF "push" \in kinds
        THEN {S("push", w, 0) : w \in {w \in Vecs \ {x} : Quiet(st, w) /\ (Len0(w) < CapOf(w) \/ Cfg.fixed)}} ELSE {})
  \cup (IF "insert" \in kinds
        THEN UNION {{S("insert", w, i) : i \in 0..(Len0(w) + 1)} :
                    w \in {w \in Vecs \ {x} : Quiet(st, w) /\ (Len0(w) < CapOf(w) \/ Cfg.fixed)}} ELSE {})

AllSinks == SinkKinds
MutCount == Cardinality({i \in 1..Len(AllElems(st)) : AllElems(st)[i][2] = 1})

(* Every generated transition gets a fresh number from a TLC register (run with -workers 1).  Since the state TLC   *)
(* keeps for a fingerprint is the first one generated, `nid` of a state is the number of the transition that       *)
(* discovered it: the printed <<nid, nid', action>> triples form a tree (trie of action paths) over all transitions. *)
Do(a) == /\ LET r == Apply(st, a, Fresh(st, MaxRepl + MaxLen + MaxLazyN + 1)) IN
              /\ Len(r.st.ext) <= MaxExt        \* a rejected raw-pointer value comes back to the driver
              /\ \A w \in Vecs : r.st.v[w].cap <= MaxCap
              /\ st' = r.st
         /\ last' = a
         /\ nid' = TLCGetAndSet(1, LAMBDA x, y : x + y, 1, 0) + 1

LS(k, to, i, s0, e0) == [k |-> k, to |-> to, i |-> i, s |-> s0, e |-> e0]
(* sinks of a lazy-clone consumption taken from vector x *)
LazySinks(x) ==
  (IF Len(st.ext) < MaxExt THEN {LS("ext", "", 0, 0, 0)} ELSE {})
  \cup UNION {{LS("push", w, 0, 0, 0)} \cup {LS("insert", w, i, 0, 0) : i \in 0..(Len(st.v[w].el) + 1)}
              \cup UNION {{LS("splice", w, 0, s0, e0) : e0 \in {e1 \in 0..Len(st.v[w].el) : e1 >= s0 /\ e1 <= s0 + 1}} : s0 \in 0..Len(st.v[w].el)}
              : w \in {w \in Vecs \ {x} : Quiet(st, w) /\ (Len(st.v[w].el) < CapOf(w) \/ Cfg.fixed)}}
LazyDo(x, kind, i) ==
  \E d \in 1..MaxLazyDepth, n \in 0..MaxLazyN, sk \in LazySinks(x) :
     /\ (sk.k = "ext" => Len(st.ext) + n <= MaxExt)
     /\ Do([op |-> "lazy", v |-> x, kind |-> kind, i |-> i, depth |-> d, n |-> n, sink |-> sk])

(* range argument instances: every (s, e) around the valid region in the requested forms *)
RangeArgs(n) ==
  UNION {
    (IF "x..y"   \in Forms THEN {[sk |-> "inc", sv |-> s, ek |-> "exc", ev |-> e] : s \in 0..n+1, e \in 0..n+1} ELSE {}),
    (IF "x..=y"  \in Forms THEN {[sk |-> "inc", sv |-> s, ek |-> "inc", ev |-> e] : s \in 0..n+1, e \in 0..n} \cup
                                {[sk |-> "inc", sv |-> 0, ek |-> "inc", ev |-> Cfg.maxu]} ELSE {}),
    (IF "..y"    \in Forms THEN {[sk |-> "unb", sv |-> 0, ek |-> "exc", ev |-> e] : e \in 0..n+1} ELSE {}),
    (IF "..=y"   \in Forms THEN {[sk |-> "unb", sv |-> 0, ek |-> "inc", ev |-> e] : e \in 0..n} \cup
                                {[sk |-> "unb", sv |-> 0, ek |-> "inc", ev |-> Cfg.maxu]} ELSE {}),
    (IF "x.."    \in Forms THEN {[sk |-> "inc", sv |-> s, ek |-> "unb", ev |-> 0] : s \in 0..n+1} \cup
                                {[sk |-> "inc", sv |-> Cfg.maxu, ek |-> "unb", ev |-> 0]} ELSE {}),
    (IF ".."     \in Forms THEN {[sk |-> "unb", sv |-> 0, ek |-> "unb", ev |-> 0]} ELSE {}),
    (IF "x<..y"  \in Forms THEN {[sk |-> "exc", sv |-> s, ek |-> "exc", ev |-> e] : s \in 0..n, e \in 0..n+1} \cup
                                {[sk |-> "exc", sv |-> Cfg.maxu, ek |-> "exc", ev |-> n]} ELSE {}),
    (IF "x<..=y" \in Forms THEN {[sk |-> "exc", sv |-> s, ek |-> "inc", ev |-> e] : s \in 0..n, e \in 0..n} ELSE {}),
    (IF "x<.."   \in Forms THEN {[sk |-> "exc", sv |-> s, ek |-> "unb", ev |-> 0] : s \in 0..n} \cup
                                {[sk |-> "exc", sv |-> Cfg.maxu, ek |-> "unb", ev |-> 0]} ELSE {}) }

Paths == {"erased", "typed"}

Others(x) == OneHandle => \A w \in Vecs \ {x} : st.v[w].h.k = "none"

Next ==
  \/ \E x \in Vecs : Quiet(st, x) /\ Others(x) /\
       \/ "push" \in Alpha /\ (Len0(x) < CapOf(x) \/ Cfg.fixed) /\ Len0(x) < 64 /\ \E src \in Srcs :
            Do([op |-> "push", v |-> x, src |-> src])
       \/ "insert" \in Alpha /\ (Len0(x) < CapOf(x) \/ Cfg.fixed) /\ \E src \in Srcs, i \in 0..(Len0(x) + 1) :
            Do([op |-> "insert", v |-> x, i |-> i, src |-> src])
       \/ "pop" \in Alpha /\ Do([op |-> "pop_begin", v |-> x])
       \/ "remove" \in Alpha /\ \E i \in 0..(Len0(x) + 1) : Do([op |-> "remove_begin", v |-> x, i |-> i])
       \/ "swap_remove" \in Alpha /\ \E i \in 0..(Len0(x) + 1) : Do([op |-> "swap_remove_begin", v |-> x, i |-> i])
       \/ "typed" \in Alpha /\ \E sk \in Sinks(x, {"drop", "ext"}) :
            \/ Do([op |-> "tpop", v |-> x, i |-> 0, sink |-> sk])
            \/ \E i \in 0..(Len0(x) + 1) : \/ Do([op |-> "tremove", v |-> x, i |-> i, sink |-> sk])
                                           \/ Do([op |-> "tswap_remove", v |-> x, i |-> i, sink |-> sk])
       \/ "clear" \in Alpha /\ \E p \in Paths : Do([op |-> "clear", v |-> x, path |-> p])
       \/ "get" \in Alpha /\ \E i \in 0..(Len0(x) + 1), kind \in {"get", "at", "get_mut", "at_mut", "tget", "tat", "tget_mut", "tat_mut"} :
            Do([op |-> "get", v |-> x, i |-> i, kind |-> kind])
       \/ "get" \in Alpha /\ \E i \in 0..(Len0(x) - 1), kind \in {"get_unchecked", "get_unchecked_mut", "tget_unchecked", "tget_unchecked_mut"} :
            Do([op |-> "get", v |-> x, i |-> i, kind |-> kind])
       \/ "get" \in Alpha /\ Do([op |-> "debug", v |-> x])
       \/ "clone" \in Alpha /\ \E i \in 0..(Len0(x) - 1) : Do([op |-> "fn_ptrs", v |-> x, i |-> i])
       \/ "mutate" \in Alpha /\ MutCount = 0 /\ \E i \in 0..(Len0(x) - 1), via \in {"elem_mut", "bytes_mut", "typed", "slice", "iter_mut", "titer_mut"} :
            Do([op |-> "mutate", v |-> x, i |-> i, via |-> via])
       \/ "drain" \in Alpha /\ \E r \in RangeArgs(Len0(x)), p \in Paths :
            Do([op |-> "drain_begin", v |-> x, sk |-> r.sk, sv |-> r.sv, ek |-> r.ek, ev |-> r.ev, path |-> p])
       \/ "splice" \in Alpha /\ \E r \in RangeArgs(Len0(x)), p \in Paths, n \in 0..MaxRepl, src \in Srcs \cap {"wrapper", "raw", "typed"} :
            /\ (p = "typed") = (src = "typed")
            /\ (Cfg.fixed \/ Len0(x) + n <= CapOf(x) + 1)
            /\ \E d \in {0} \cup (IF "liar" \in Alpha /\ r.sk = "inc" /\ r.ek = "exc" THEN {-2, -1, 1, 2} ELSE {}) :
                 Do([op |-> "splice_begin", v |-> x, sk |-> r.sk, sv |-> r.sv, ek |-> r.ek, ev |-> r.ev, path |-> p, n |-> n, src |-> src, delta |-> d])
       \/ "cap" \in Alpha /\ ~Cfg.fixed /\ \E p \in Paths :
            \/ \E n \in (0..(MaxCap - Len0(x))) \cup ((Cfg.maxu - 2)..Cfg.maxu), op \in {"reserve", "reserve_exact"} :
                 Do([op |-> op, v |-> x, n |-> n, path |-> p])
            \/ Do([op |-> "shrink_to_fit", v |-> x, n |-> 0, path |-> p])
            \/ \E n \in (0..(MaxCap + 1)) \cup {Cfg.maxu} : Do([op |-> "shrink_to", v |-> x, n |-> n, path |-> p])
       \/ "recreate" \in Alpha /\ ~Cfg.fixed /\ \E n \in 0..3 : Do([op |-> "recreate", v |-> x, n |-> n])
       \/ "clone" \in Alpha /\ \E w \in Vecs \ {x} : Quiet(st, w) /\ Do([op |-> "clone_vec", v |-> x, to |-> w])
       \/ "ce_probe" \in Alpha /\ \E via \in {"same", "heap", "stack", "stackn", "stackn1", "empty", "fence"} : Do([op |-> "ce_probe", v |-> x, via |-> via])
       \/ "lazy" \in Alpha /\ \E i \in 0..(Len0(x) - 1) : LazyDo(x, "elem", i)
       \/ "raw" \in Alpha /\ \E c \in BOOLEAN : Do([op |-> "raw_roundtrip", v |-> x, clone |-> c])
       \/ "wrong" \in Alpha /\ \E ty \in {"X8", "Y8", "Z16"} :
            \/ \E src \in {"wrapper", "raw"} :
                 \/ Do([op |-> "push_wrong", v |-> x, src |-> src, ty |-> ty])
                 \/ \E i \in 0..Len0(x) : Do([op |-> "insert_wrong", v |-> x, i |-> i, src |-> src, ty |-> ty])
            \/ \E i \in 0..(Len0(x) - 1), side \in {"first", "second"} : Do([op |-> "swap_wrong", v |-> x, i |-> i, side |-> side, ty |-> ty])
            \/ \E s0 \in 0..Len0(x), n \in 1..2 : \E j \in 1..n, e0 \in {e1 \in s0..Len0(x) : e1 <= s0 + 1} :
                 \/ Do([op |-> "splice_wrong", v |-> x, s |-> s0, e |-> e0, n |-> n, j |-> j, ty |-> ty, src |-> "raw"])
                 \/ j = 1 /\ Do([op |-> "splice_wrong", v |-> x, s |-> s0, e |-> e0, n |-> n, j |-> j, ty |-> ty, src |-> "wrapper"])
       \/ "wrong" \in Alpha /\ \E how \in {"push", "insert"} :
            \/ Do([op |-> "cross_wrong", v |-> x, dir |-> "into_v", how |-> how])
            \/ Len0(x) > 0 /\ Do([op |-> "cross_wrong", v |-> x, dir |-> "from_v", how |-> how])
       \/ "downcast" \in Alpha /\ \E ty \in {"real", "X8", "Y8", "Z16", "u64", "bytes8"} :
            \/ \E what \in {"vec_ref", "vec_mut"} : Do([op |-> "downcast_q", v |-> x, what |-> what, i |-> 0, ty |-> ty])
            \/ \E what \in {"elem_ref", "elem_mut"}, i \in 0..(Len0(x) - 1) : Do([op |-> "downcast_q", v |-> x, what |-> what, i |-> i, ty |-> ty])
       \/ "swap" \in Alpha /\ \E i \in 0..(Len0(x) - 1), side \in {"first", "second"} :
            \/ \E w \in Vecs \ {x} : Quiet(st, w) /\ \E j \in 0..(Len0(w) - 1) :
                 Do([op |-> "swap", v |-> x, i |-> i, with |-> "elem", to |-> w, j |-> j, side |-> side])
            \/ Len(st.ext) < MaxExt /\ \E k \in {"wrapper", "typed"} : Do([op |-> "swap", v |-> x, i |-> i, with |-> k, to |-> "", j |-> 0, side |-> side])
            \/ st.ext # <<>> /\ Do([op |-> "swap", v |-> x, i |-> i, with |-> "raw", to |-> "", j |-> 0, side |-> side])
       \/ "spare" \in Alpha /\ \E k \in 0..2, via \in {"bytes", "typed"} :
            Len0(x) + k <= st.v[x].cap /\ Len0(x) + k <= CapOf(x) /\ Do([op |-> "spare_write", v |-> x, k |-> k, via |-> via])
       \/ "place" \in Alpha /\ \E k \in 0..15 : Do([op |-> "place", v |-> x, off |-> 8 * k])
       \/ "push_many" \in Alpha /\ Len0(x) = 0 /\ x = "a" /\ Do([op |-> "push_many", v |-> x, n |-> PushManyN])
       \/ "iter" \in Alpha /\ \E kind \in {"iter", "iter_mut", "titer", "titer_mut", "into_ref", "into_mut", "tinto_ref", "tinto_mut"} :
            Do([op |-> "iter_begin", v |-> x, kind |-> kind])
  \/ \E x \in Vecs : st.v[x].h.k = "tmp" /\
       \/ \E sk \in Sinks(x, AllSinks) : Do([op |-> "consume", v |-> x, sink |-> sk])
       \/ "hmutate" \in Alpha /\ MutCount = 0 /\ \E via \in {"downcast_mut", "bytes_mut"} :
            Do([op |-> "hmutate", v |-> x, via |-> via])
       \/ "lazy" \in Alpha /\ LazyDo(x, "handle", 0)
       \/ "downcast" \in Alpha /\ \E ty \in {"real", "X8", "Y8", "Z16", "u64"} : Do([op |-> "downcast_q", v |-> x, what |-> "handle", i |-> 0, ty |-> ty])
       \/ "swap" \in Alpha /\ \E w \in Vecs \ {x} : Quiet(st, w) /\ \E i \in 0..(Len0(w) - 1), side \in {"first", "second"} :
            Do([op |-> "swap", v |-> w, i |-> i, with |-> "handle", to |-> x, j |-> 0, side |-> side])
  \/ \E x \in Vecs : st.v[x].h.k = "range" /\
       \/ \E end \in {"front", "back"},
             sk \in Sinks(x, IF st.v[x].h.path = "typed" THEN {"drop", "ext"}
                             ELSE AllSinks \cup (IF "keep" \in Alpha /\ Len(st.v[x].h.out) < MaxOut THEN {"keep"} ELSE {})) :
            Do([op |-> "next", v |-> x, end |-> end, sink |-> sk])
       \* dropping / forgetting the iterator while items it yielded are still alive is explored only on request
       \* ("outlive"): it is a recorded finding of the crate (see known_findings.json) and poisons everything after it
       \/ (st.v[x].h.out = <<>> \/ "outlive" \in Alpha) /\ Do([op |-> "range_drop", v |-> x])
       \/ "forget" \in Alpha /\ (st.v[x].h.out = <<>> \/ "outlive" \in Alpha) /\ Do([op |-> "range_forget", v |-> x])
  \/ \E x \in Vecs : st.v[x].h.k \in {"range", "items"} /\
       \E k \in 1..Len(st.v[x].h.out), sk \in Sinks(x, AllSinks) : Do([op |-> "item_consume", v |-> x, k |-> k, sink |-> sk])
  \/ \E x \in Vecs : st.v[x].h.k = "range" /\ "lazy" \in Alpha /\ \E k \in 0..(Len(st.v[x].h.out) - 1) : LazyDo(x, "item", k)
  \/ \E x \in Vecs : st.v[x].h.k = "iter" /\
       \/ \E k \in 1..Len(st.v[x].h.its), end \in {"front", "back"} : Do([op |-> "iter_next", v |-> x, k |-> k, end |-> end])
       \/ \E k \in 1..Len(st.v[x].h.its) : Len(st.v[x].h.its) < MaxIters /\ st.v[x].h.kind \in {"iter", "titer", "into_ref", "tinto_ref"} /\
            Do([op |-> "iter_clone", v |-> x, k |-> k])
       \/ Do([op |-> "iter_end", v |-> x])
  \/ "ext_drop" \in Alpha /\ st.ext # <<>> /\ Do([op |-> "ext_drop", v |-> CHOOSE x \in Vecs : TRUE])

Init == st = Init0 /\ nid = 0 /\ last = [op |-> "init"]
Spec == Init /\ [][Next]_vars

(* every generated transition is a case for the harness *)
Emit == PrintT(<<nid, nid', ToJson(last')>>)

---------------------------------------------------------------------------
(* shape view: identities replaced by their rank in scan order *)
FirstIdx(s, x) == Min({i \in 1..Len(s) : s[i] = x})
RankMap(s) == [x \in ToSet(s) |-> Cardinality({FirstIdx(s, y) : y \in ToSet(s)} \cap 1..FirstIdx(s, x))]
MapId(m, id) == IF id \in DOMAIN m THEN m[id] ELSE 0     \* identities that already left a range handle
RenS(m, s) == [i \in 1..Len(s) |-> <<MapId(m, s[i][1]), s[i][2]>>]
RenH(m, H) ==
  CASE H.k = "tmp"   -> [H EXCEPT !.held = <<MapId(m, @[1]), @[2]>>, !.rest = RenS(m, @), !.pre = RenS(m, @)]
    [] H.k = "range" -> [H EXCEPT !.pre = RenS(m, @), !.repl = RenS(m, @), !.out = RenS(m, @)]
    [] H.k = "items" -> [H EXCEPT !.out = RenS(m, @)]
    [] OTHER -> H
View == LET ids == Ids(AllElems(st))
            m == IF Len(ids) > 24 THEN [x \in ToSet(ids) |-> x] ELSE RankMap(ids) IN     \* long amortisation runs: no renaming needed
        [v |-> [x \in Vecs |-> [st.v[x] EXCEPT !.el = IF st.v[x].h.k \in {"tmp", "range"} THEN <<>> ELSE RenS(m, @),
                                               !.h = RenH(m, @)]],
         ext |-> RenS(m, st.ext)]

---------------------------------------------------------------------------
(* model-level invariants of the contract *)
OwnershipInv == WF(st)
HandleInv == \A x \in Vecs : LET H == st.v[x].h IN
               /\ H.k = "range" => /\ H.s <= H.e /\ H.e <= Len(H.pre) /\ H.f + H.b <= H.e - H.s
                                   /\ \A i \in 1..Len(H.out) : \E j \in (H.s + 1)..H.e : H.pre[j][1] = H.out[i][1]
               /\ H.k = "tmp" => /\ H.idx < Len(H.pre) /\ Len(H.rest) = Len(H.pre) - 1
                                 /\ IdSet(H.rest) \cup {H.held[1]} = IdSet(H.pre)
               /\ H.k = "iter" => \A k \in 1..Len(H.its) : H.its[k].i <= H.its[k].e /\ H.its[k].e <= Len(st.v[x].el)
(* an identity becomes leaked only by a forgetting step or a step that the contract allows to lose elements *)
LeakOnlyBy == [][st'.leaked # st.leaked =>
                   LET a == last' IN
                   \/ a.op \in {"range_forget"} \/ (a.op \in {"consume", "next", "item_consume"} /\ a.sink.k = "forget")
                   \/ (a.op = "range_drop" /\ Cfg.fixed)]_vars
=============================================================================
