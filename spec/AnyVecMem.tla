----------------------------- MODULE AnyVecMem -----------------------------
(***************************************************************************)
(* Implementation-shaped layer (design level).  One vector, its storage    *)
(* as explicit slots, the operations of any_vec as the micro-steps the     *)
(* code performs, with user code (element Drop / Clone, replacement        *)
(* iterator) as separate steps that may panic.  TLC checks that storage is *)
(* accessed in bounds and initialised, that nothing destroyed or handed    *)
(* out is ever visible, and that every completed operation lands on the    *)
(* Vec-equivalent contract state (refinement); after an unwind only ruling *)
(* A4 must hold.  The four BOOLEAN constants select between the repaired   *)
(* code (all "good") and the behaviour of the original tree; with an       *)
(* "original" value TLC finds the corresponding defect.  This module never *)
(* decides a property about changed code: it explains the ordering tricks. *)
(***************************************************************************)
EXTENDS Naturals, Integers, Sequences, FiniteSets, TLC

CONSTANTS MaxId,                    \* identities 1..MaxId
          Cap0, CapMax,             \* initial capacity, capacity after the one modelled growth
          LoopBelow,                \* copies of fewer slots than this use the element-wise forward loop (copy_bytes), else memmove
          DirectionAwareCopy,       \* TRUE: the loop copies backwards when dst > src (repaired); FALSE: always forwards (original)
          LenLoweredAroundWrite,    \* TRUE: insert lowers len to the index around the (possibly cloning) write (repaired)
          RangeEndFixed,            \* TRUE: drain/splice Drop use the range end (repaired); FALSE: the moving cursor iter.end (original)
          BoundedRefill             \* TRUE: splice takes at most the reported number of items and closes the gap (repaired)

Poison == 0
Stale(id) == 0 - id                 \* a slot whose value was moved out bitwise still holds its bits
IsLive(x) == x > 0

VARIABLES slot,      \* [0..CapMax-1 -> Int]: identity, Poison or Stale(id); positions >= cap are not accessible
          cap, len,
          dead,      \* identities whose destructor ran
          taken,     \* identities handed out to the caller (moved out of the vector)
          shadow,    \* what std::vec::Vec would hold (the contract), updated when an operation is called
          lossy,     \* TRUE once an operation unwound: from then on only A4 is required
          nextId,
          pc,        \* micro-step program counter: record [op, ...locals]
          bad        \* set of strings: access violations recorded by the steps
vars == <<slot, cap, len, dead, taken, shadow, lossy, nextId, pc, bad>>

Idle == [op |-> "idle"]
Vis == [i \in 1..len |-> slot[i - 1]]
SeqSet(s) == {s[i] : i \in 1..Len(s)}

(* ---- the copy primitive: n slots from src to dst ---- *)
RECURSIVE FwdLoop(_, _, _, _, _), BwdLoop(_, _, _, _, _)
FwdLoop(f, src, dst, k, n) == IF k = n THEN f ELSE FwdLoop([f EXCEPT ![dst + k] = f[src + k]], src, dst, k + 1, n)
BwdLoop(f, src, dst, k, n) == IF k = 0 THEN f ELSE BwdLoop([f EXCEPT ![dst + k - 1] = f[src + k - 1]], src, dst, k - 1, n)
MemMove(f, src, dst, n) == [j \in DOMAIN f |-> IF j >= dst /\ j < dst + n THEN f[src + (j - dst)] ELSE f[j]]
Copy(f, src, dst, n, erased) ==
  IF ~erased \/ n >= LoopBelow THEN MemMove(f, src, dst, n)              \* typed path / large counts: ptr::copy
  ELSE IF DirectionAwareCopy /\ dst > src THEN BwdLoop(f, src, dst, n, n)
  ELSE FwdLoop(f, src, dst, 0, n)
InBounds(lo, n) == n = 0 \/ lo + n <= cap
(* slots that were sources of a move and were not overwritten keep stale bits *)
MarkStale(f, src, dst, n) ==
  [j \in DOMAIN f |-> IF j >= src /\ j < src + n /\ ~(j >= dst /\ j < dst + n) /\ f[j] > 0 THEN Stale(f[j]) ELSE f[j]]

Init ==
  /\ slot = [j \in 0..(CapMax - 1) |-> Poison] /\ cap = Cap0 /\ len = 0
  /\ dead = {} /\ taken = {} /\ shadow = <<>> /\ lossy = FALSE /\ nextId = 1 /\ pc = Idle /\ bad = {}

Ins(s, i, x) == SubSeq(s, 1, i) \o <<x>> \o SubSeq(s, i + 1, Len(s))
Del(s, i) == SubSeq(s, 1, i) \o SubSeq(s, i + 2, Len(s))

(* ---------------------------------------------------------------- insert(i, value) *)
InsertCall(i, erased, lazy) ==
  /\ pc = Idle /\ ~lossy /\ i <= len /\ nextId <= MaxId /\ len < CapMax
  /\ pc' = [op |-> "insert", at |-> "reserve", i |-> i, x |-> nextId, erased |-> erased, lazy |-> lazy, oldlen |-> len]
  /\ shadow' = Ins(shadow, i, nextId) /\ nextId' = nextId + 1
  /\ UNCHANGED <<slot, cap, len, dead, taken, lossy, bad>>
InsertStep ==
  /\ pc.op = "insert"
  /\ CASE pc.at = "reserve" ->           \* reserve_one: grow (relocate) when full, BEFORE any pointer is derived
            /\ cap' = IF len = cap THEN CapMax ELSE cap
            /\ pc' = [pc EXCEPT !.at = "shift"] /\ UNCHANGED <<slot, len, dead, taken, lossy, bad>>
       [] pc.at = "shift" ->
            LET n == pc.oldlen - pc.i IN
            /\ bad' = bad \cup (IF InBounds(pc.i + 1, n) THEN {} ELSE {"shift_out_of_bounds"})
            /\ slot' = MarkStale(Copy(slot, pc.i, pc.i + 1, n, pc.erased), pc.i, pc.i + 1, n)
            /\ len' = IF LenLoweredAroundWrite THEN pc.i ELSE len
            /\ pc' = [pc EXCEPT !.at = "write"] /\ UNCHANGED <<cap, dead, taken, lossy>>
       [] pc.at = "write" ->             \* move_into: a lazy clone runs user code here, which may panic
            \/ /\ slot' = [slot EXCEPT ![pc.i] = pc.x] /\ len' = pc.oldlen + 1 /\ pc' = Idle
               /\ UNCHANGED <<cap, dead, taken, lossy, bad>>
            \/ /\ pc.lazy /\ lossy' = TRUE /\ pc' = Idle             \* unwind: nothing else runs
               /\ UNCHANGED <<slot, cap, len, dead, taken, bad>>
  /\ UNCHANGED <<shadow, nextId>>

(* ---------------------------------------------------------------- remove(i) -> handle -> consumed *)
RemoveCall(i, erased) ==
  /\ pc = Idle /\ ~lossy /\ i < len
  /\ pc' = [op |-> "remove", at |-> "held", i |-> i, last |-> len - 1, erased |-> erased]
  /\ len' = i                                                      \* TempValue::new lowers len first
  /\ shadow' = Del(shadow, i)
  /\ UNCHANGED <<slot, cap, dead, taken, lossy, nextId, bad>>
RemoveStep ==
  /\ pc.op = "remove"
  /\ CASE pc.at = "held" ->              \* the handle is dropped (user Drop, may panic) or moved out
            LET id == slot[pc.i] IN
            /\ bad' = bad \cup (IF IsLive(id) THEN {} ELSE {"read_uninitialised"})
            /\ \/ /\ dead' = dead \cup {id} /\ taken' = taken /\ lossy' = lossy /\ pc' = [pc EXCEPT !.at = "shift"]
               \/ /\ taken' = taken \cup {id} /\ dead' = dead /\ lossy' = lossy /\ pc' = [pc EXCEPT !.at = "shift"]
               \/ /\ dead' = dead \cup {id} /\ taken' = taken /\ lossy' = TRUE /\ pc' = Idle   \* Drop panicked: consume() never runs
            /\ slot' = [slot EXCEPT ![pc.i] = Stale(id)]
            /\ UNCHANGED <<cap, len>>
       [] pc.at = "shift" ->
            LET n == pc.last - pc.i IN
            /\ slot' = MarkStale(Copy(slot, pc.i + 1, pc.i, n, pc.erased), pc.i + 1, pc.i, n)
            /\ len' = pc.last /\ pc' = Idle
            /\ UNCHANGED <<cap, dead, taken, lossy, bad>>
  /\ UNCHANGED <<shadow, nextId>>

(* ---------------------------------------------------------------- drain(s..e) / splice(s..e, replacement) *)
(* r = reported replacement length, a = number of items the replacement really yields (r # a: a lying ExactSizeIterator) *)
RangeCall(s, e, r, a) ==
  /\ pc = Idle /\ ~lossy /\ s <= e /\ e <= len /\ nextId + a <= MaxId + 1 /\ (len - (e - s)) + r <= CapMax /\ (len - (e - s)) + a <= CapMax
  /\ pc' = [op |-> "range", at |-> "iter", s |-> s, e |-> e, idx |-> s, iend |-> e, origlen |-> len, r |-> r, a |-> a, k |-> 0, first |-> nextId]
  /\ len' = s                                                      \* Drain::new / Splice::new
  /\ shadow' = SubSeq(shadow, 1, s) \o [j \in 1..(IF r = a THEN a ELSE 0) |-> nextId + j - 1] \o SubSeq(shadow, e + 1, Len(shadow))
  /\ nextId' = nextId + a
  /\ lossy' = (r # a)                                              \* a lying iterator: only A4 afterwards
  /\ UNCHANGED <<slot, cap, dead, taken, bad>>
RangeStep ==
  /\ pc.op = "range"
  /\ CASE pc.at = "iter" ->              \* next / next_back hand items out; or the iterator is dropped
            \/ /\ pc.idx < pc.iend /\ taken' = taken \cup {slot[pc.idx]} /\ slot' = [slot EXCEPT ![pc.idx] = Stale(@)]
               /\ pc' = [pc EXCEPT !.idx = @ + 1] /\ UNCHANGED <<cap, len, dead, lossy, bad>>
            \/ /\ pc.idx < pc.iend /\ taken' = taken \cup {slot[pc.iend - 1]} /\ slot' = [slot EXCEPT ![pc.iend - 1] = Stale(@)]
               /\ pc' = [pc EXCEPT !.iend = @ - 1] /\ UNCHANGED <<cap, len, dead, lossy, bad>>
            \/ /\ pc' = [pc EXCEPT !.at = "reserve"] /\ UNCHANGED <<slot, cap, len, dead, taken, lossy, bad>>
       [] pc.at = "reserve" ->           \* splice: room for the REPORTED number of items
            LET newlen == pc.s + pc.r + (pc.origlen - pc.e) IN
            /\ cap' = IF newlen > cap THEN CapMax ELSE cap
            /\ pc' = [pc EXCEPT !.at = "droprest"] /\ UNCHANGED <<slot, len, dead, taken, lossy, bad>>
       [] pc.at = "droprest" ->          \* destroy what was not yielded (user Drop; one step, may panic)
            LET rest == {slot[j] : j \in pc.idx..(pc.iend - 1)} IN
            /\ bad' = bad \cup (IF \A x \in rest : IsLive(x) THEN {} ELSE {"drop_of_moved_out"})
            /\ dead' = dead \cup {x \in rest : IsLive(x)}
            /\ slot' = [j \in DOMAIN slot |-> IF j >= pc.idx /\ j < pc.iend /\ slot[j] > 0 THEN Stale(slot[j]) ELSE slot[j]]
            /\ \/ pc' = [pc EXCEPT !.at = "movetail"] /\ lossy' = lossy
               \/ rest # {} /\ pc' = Idle /\ lossy' = TRUE
            /\ UNCHANGED <<cap, len, taken>>
       [] pc.at = "movetail" ->
            LET from == IF RangeEndFixed THEN pc.e ELSE pc.iend
                n == pc.origlen - from
                to == pc.s + pc.r IN
            /\ bad' = bad \cup (IF InBounds(to, n) THEN {} ELSE {"tail_out_of_bounds"})
            /\ slot' = IF InBounds(to, n) THEN MarkStale(MemMove(slot, from, to, n), from, to, n) ELSE slot
            /\ pc' = [pc EXCEPT !.at = "refill"] /\ UNCHANGED <<cap, len, dead, taken, lossy>>
       [] pc.at = "refill" ->            \* replace_with.next(): user code, one item per step, may panic
            IF pc.k < pc.a /\ (~BoundedRefill \/ pc.k < pc.r)
            THEN \/ /\ bad' = bad \cup (IF pc.s + pc.k < cap THEN {} ELSE {"refill_out_of_bounds"})
                    /\ slot' = IF pc.s + pc.k < cap THEN [slot EXCEPT ![pc.s + pc.k] = pc.first + pc.k] ELSE slot
                    /\ pc' = [pc EXCEPT !.k = @ + 1] /\ UNCHANGED <<cap, len, dead, taken, lossy>>
                 \/ /\ lossy' = TRUE /\ pc' = Idle /\ UNCHANGED <<slot, cap, len, dead, taken, bad>>
            ELSE LET tail == pc.origlen - (IF RangeEndFixed THEN pc.e ELSE pc.iend)
                     got == IF BoundedRefill THEN pc.k ELSE pc.r IN
                 (* fewer items than reported: close the gap (repaired code); then restore len *)
                 /\ slot' = IF BoundedRefill /\ pc.k < pc.r
                            THEN MarkStale(MemMove(slot, pc.s + pc.r, pc.s + pc.k, tail), pc.s + pc.r, pc.s + pc.k, tail) ELSE slot
                 /\ len' = pc.s + got + tail
                 /\ pc' = Idle /\ UNCHANGED <<cap, dead, taken, lossy, bad>>
  /\ UNCHANGED <<shadow, nextId>>

(* ---------------------------------------------------------------- clear() *)
ClearCall ==
  /\ pc = Idle /\ ~lossy /\ len > 0
  /\ pc' = [op |-> "clear", at |-> "drop", n |-> len, k |-> 0]
  /\ len' = 0 /\ shadow' = <<>>
  /\ UNCHANGED <<slot, cap, dead, taken, lossy, nextId, bad>>
ClearStep ==
  /\ pc.op = "clear"
  /\ IF pc.k < pc.n
     THEN /\ dead' = dead \cup {slot[pc.k]} /\ slot' = [slot EXCEPT ![pc.k] = Stale(@)]
          /\ \/ pc' = [pc EXCEPT !.k = @ + 1] /\ lossy' = lossy
             \/ pc' = Idle /\ lossy' = TRUE
     ELSE pc' = Idle /\ UNCHANGED <<slot, dead, lossy>>
  /\ UNCHANGED <<cap, len, taken, shadow, nextId, bad>>

Next ==
  \/ \E i \in 0..CapMax, er \in BOOLEAN, lz \in BOOLEAN : InsertCall(i, er, lz)
  \/ InsertStep
  \/ \E i \in 0..CapMax, er \in BOOLEAN : RemoveCall(i, er)
  \/ RemoveStep
  \/ \E s \in 0..CapMax, e \in 0..CapMax, r \in 0..2, a \in 0..2 : RangeCall(s, e, r, a)
  \/ RangeStep
  \/ ClearCall \/ ClearStep
Spec == Init /\ [][Next]_vars

(* ---------------------------------------------------------------- what TLC checks *)
AccessInBounds == bad = {}
(* nothing destroyed, handed out, stale or poisoned is visible; nothing is visible twice - at EVERY micro-step, because *)
(* user code can run (and unwind) between any two of them                                                              *)
VisibleLive == \A i \in 1..len : IsLive(Vis[i]) /\ Vis[i] \notin dead /\ Vis[i] \notin taken
NoDuplicateVisible == \A i, j \in 1..len : i # j => Vis[i] # Vis[j]
(* refinement into the contract: whenever no operation is in progress and nothing unwound, the visible elements are   *)
(* exactly what Vec would hold                                                                                        *)
Refines == (pc = Idle /\ ~lossy) => Vis = shadow
(* after an unwind or a lying iterator: only "alive, intact, once" (A4), checked by the two invariants above           *)
LenCap == len <= cap
=============================================================================
