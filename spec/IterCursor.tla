---------------------------- MODULE IterCursor ----------------------------
(***************************************************************************)
(* The cursor pair shared by iter / iter_mut / drain / splice (C14), as an *)
(* integer-only state machine, for an UNBOUNDED argument with Apalache:    *)
(* IndInv is inductive (Init => IndInv, IndInv /\ Next => IndInv') and     *)
(* implies the exact-size, each-once, fused behaviour for ranges of any    *)
(* length.  `fr` / `bk` count the items handed out from the front / back;  *)
(* `lastF` / `lastB` are the positions of the last item handed out at each *)
(* end (-1: none yet).                                                     *)
(***************************************************************************)
EXTENDS Integers

VARIABLES
  \* @type: Int;
  s0,
  \* @type: Int;
  e0,
  \* @type: Int;
  idx,
  \* @type: Int;
  end,
  \* @type: Int;
  fr,
  \* @type: Int;
  bk,
  \* @type: Int;
  lastF,
  \* @type: Int;
  lastB,
  \* @type: Int;
  hint


Init ==
  /\ s0 \in Nat /\ e0 \in Nat /\ s0 <= e0
  /\ idx = s0 /\ end = e0 /\ fr = 0 /\ bk = 0 /\ lastF = -1 /\ lastB = -1 /\ hint = e0 - s0

(* next(): hands out position idx, or None forever once idx = end (fused) *)
NextFront ==
  \/ /\ idx < end /\ lastF' = idx /\ idx' = idx + 1 /\ fr' = fr + 1 /\ hint' = end - idx'
     /\ UNCHANGED <<s0, e0, end, bk, lastB>>
  \/ /\ idx = end /\ hint' = 0 /\ UNCHANGED <<s0, e0, idx, end, fr, bk, lastF, lastB>>
(* next_back(): hands out position end - 1 *)
NextBack ==
  \/ /\ idx < end /\ lastB' = end - 1 /\ end' = end - 1 /\ bk' = bk + 1 /\ hint' = end' - idx
     /\ UNCHANGED <<s0, e0, idx, fr, lastF>>
  \/ /\ idx = end /\ hint' = 0 /\ UNCHANGED <<s0, e0, idx, end, fr, bk, lastF, lastB>>
Next == NextFront \/ NextBack

(* the inductive invariant *)
IndInv ==
  /\ s0 >= 0 /\ s0 <= idx /\ idx <= end /\ end <= e0
  /\ fr = idx - s0 /\ bk = e0 - end
  /\ hint = end - idx                                      \* size_hint / len are exact
  /\ hint = (e0 - s0) - fr - bk                            \* = the number of items still to come
  /\ (fr = 0 <=> lastF = -1) /\ (bk = 0 <=> lastB = -1)
  /\ (fr > 0 => lastF = idx - 1)                           \* front items in ascending position
  /\ (bk > 0 => lastB = end)                               \* back items in descending position
  /\ (fr > 0 /\ bk > 0 => lastF < lastB)                   \* never the same element from both ends: each exactly once
IndInit ==
  /\ s0 \in Nat /\ e0 \in Nat /\ idx \in Int /\ end \in Int /\ fr \in Int /\ bk \in Int
  /\ lastF \in Int /\ lastB \in Int /\ hint \in Int
  /\ IndInv
=============================================================================
