---------------------------- MODULE AnyVecBorrow ----------------------------
(***************************************************************************)
(* Loan rule model for C16: which uses of a vector conflict with a live    *)
(* handle.  Objects: the source vector v, a typed view t of it, a handle h *)
(* produced by a method, a value r borrowed through the view or handle.    *)
(* A handle holds a LOAN on what it was created from, shared or exclusive; *)
(* a statement is legal iff the loan rules allow it.  TLC enumerates every *)
(* (method, statement) pair and prints the case with the verdict the rules *)
(* give ("reject" / "accept"); probes.py renders each case and its         *)
(* conflict-free control into Rust and asks rustc.                         *)
(***************************************************************************)
EXTENDS Naturals, Sequences, FiniteSets, TLC, Json

(* handle-producing methods: loan kind on the vector, is the handle consumed by value (removal handles), erased or typed path *)
M(name, kind, consuming, path) == [name |-> name, kind |-> kind, consuming |-> consuming, path |-> path]
Methods == {
  M("get", "shared", FALSE, "erased"), M("at", "shared", FALSE, "erased"),
  M("get_mut", "excl", FALSE, "erased"), M("at_mut", "excl", FALSE, "erased"),
  M("iter", "shared", FALSE, "erased"), M("iter_mut", "excl", FALSE, "erased"),
  M("pop", "excl", TRUE, "erased"), M("remove", "excl", TRUE, "erased"), M("swap_remove", "excl", TRUE, "erased"),
  M("drain", "excl", FALSE, "erased"), M("splice", "excl", FALSE, "erased"),
  M("as_bytes", "shared", FALSE, "erased"), M("as_bytes_mut", "excl", FALSE, "erased"), M("spare_bytes_mut", "excl", FALSE, "erased"),
  M("downcast_ref", "shared", FALSE, "erased"), M("downcast_mut", "excl", FALSE, "erased"),
  M("lazy_clone", "shared", FALSE, "erased"),
  M("t_as_slice", "shared", FALSE, "typed"), M("t_iter", "shared", FALSE, "typed"), M("t_at", "shared", FALSE, "typed"),
  M("t_as_mut_slice", "excl", FALSE, "typed"), M("t_iter_mut", "excl", FALSE, "typed"), M("t_at_mut", "excl", FALSE, "typed"),
  M("t_drain", "excl", FALSE, "typed"), M("t_splice", "excl", FALSE, "typed"), M("t_spare_capacity_mut", "excl", FALSE, "typed") }

(* statements placed between the creation of the handle and its last use *)
Statements == {"mutate_src", "read_src", "second_excl", "second_shared", "move_src", "drop_src", "escape_scope", "consume_twice"}

(* the loan rules *)
Legal(m, s) ==
  CASE s = "mutate_src"    -> FALSE                       \* needs an exclusive borrow of v: conflicts with any live loan
    [] s = "read_src"      -> m.kind = "shared"           \* a shared use is fine unless the live loan is exclusive
    [] s = "second_excl"   -> FALSE
    [] s = "second_shared" -> m.kind = "shared"
    [] s = "move_src"      -> FALSE
    [] s = "drop_src"      -> FALSE
    [] s = "escape_scope"  -> FALSE                       \* the handle would outlive its source
    [] s = "consume_twice" -> ~m.consuming                \* a by-value consumption moves the handle

(* is the statement meaningful for the method at all *)
Applies(m, s) == s = "consume_twice" => m.consuming

(* second-level loans: borrows obtained THROUGH a typed view, a handle or an iterator must be tied to it *)
ViewMethods == {"at", "get", "at_mut", "get_mut", "as_slice", "as_mut_slice", "iter", "iter_mut", "spare_capacity_mut", "drain", "splice"}
ViewMutations == {"push", "clear", "remove"}
TwoPaths == {"as_mut_slice_twice", "element_downcast_mut_twice", "element_downcast_ref_then_mut", "iter_mut_clone",
             "get_mut_twice_via_view", "lazy_clone_outlives_handle", "lazy_clone_survives_consumption"}
Outlives == {"drain_item_outlives_temp_iterator", "splice_item_outlives_temp_iterator", "drain_item_after_drop_iterator"}

(* methods that change the vector need an exclusive path: called through a shared reference (erased) or through the shared   *)
(* typed view AnyVecRef they must be rejected; the same call through `&mut` / AnyVecMut is the control                        *)
MutatorsErased == {"push", "insert", "pop", "remove", "swap_remove", "drain", "splice", "clear", "get_mut", "at_mut", "iter_mut",
                   "as_bytes_mut", "spare_bytes_mut", "reserve", "reserve_exact", "shrink_to_fit", "shrink_to", "downcast_mut",
                   "set_len", "get_unchecked_mut", "downcast_mut_unchecked", "push_unchecked", "insert_unchecked"}
MutatorsTyped  == {"push", "insert", "pop", "remove", "swap_remove", "drain", "splice", "clear", "get_mut", "at_mut", "iter_mut",
                   "as_mut_slice", "spare_capacity_mut", "reserve", "reserve_exact", "shrink_to_fit", "shrink_to", "set_len",
                   "get_unchecked_mut", "as_mut_ptr"}

Cases ==
     { cc \in { [kind |-> "vec_loan", method |-> m.name, loan |-> m.kind, path |-> m.path, stmt |-> s,
        expect |-> IF Legal(m, s) THEN "accept" ELSE "reject"] : m \in Methods, s \in Statements } :
         cc.stmt # "consume_twice" \/ cc.method \in {"pop", "remove", "swap_remove"} }
  \cup { [kind |-> "pair", method |-> m1.name, loan |-> m1.kind, path |-> m1.path, stmt |-> m2.name,
        expect |-> IF m1.kind = "shared" /\ m2.kind = "shared" THEN "accept" ELSE "reject"]      \* two handles alive at once: only shared + shared
        : m1 \in {x \in Methods : x.name # "lazy_clone"}, m2 \in {x \in Methods : x.name # "lazy_clone"} }
  \cup { [kind |-> "view_reuse", method |-> vm, loan |-> "view", path |-> "typed", stmt |-> mu, expect |-> "reject"]
        : vm \in ViewMethods, mu \in ViewMutations }
  \cup { [kind |-> "two_paths", method |-> p, loan |-> "second", path |-> "mixed", stmt |-> "", expect |-> "reject"] : p \in TwoPaths }
  \cup { [kind |-> "needs_mut", method |-> m, loan |-> "shared", path |-> "erased", stmt |-> "", expect |-> "reject"] : m \in MutatorsErased }
  \cup { [kind |-> "needs_mut", method |-> m, loan |-> "shared", path |-> "typed", stmt |-> "", expect |-> "reject"] : m \in MutatorsTyped }
  \cup { [kind |-> "outlives", method |-> p, loan |-> "second", path |-> "erased", stmt |-> "", expect |-> "reject"] : p \in Outlives }

VARIABLE c
Init == c \in Cases
Next == UNCHANGED c
EmitInv == PrintT(ToJson(c))

(* sanity of the rule model: exclusivity is at least as strict as sharing; every method has a conflict and a legal control *)
RuleSanity ==
  /\ \A m \in Methods, s \in Statements : (m.kind = "excl" /\ Legal(m, s)) => Legal([m EXCEPT !.kind = "shared"], s)
  /\ \A m \in Methods : \E s \in Statements : Applies(m, s) /\ ~Legal(m, s)
=============================================================================
