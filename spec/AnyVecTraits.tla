---------------------------- MODULE AnyVecTraits ----------------------------
(***************************************************************************)
(* Rule model for the compile-time surface of any_vec (C15, C19):          *)
(* which types may be Send / Sync, which constructors and methods exist.   *)
(* It states, from first principles, what is SOUND and what the property   *)
(* promises; TLC enumerates the whole configuration space and prints one   *)
(* case per query with the expected verdict; probes/ renders the cases     *)
(* into Rust and compares rustc's verdicts.                                *)
(***************************************************************************)
EXTENDS Naturals, Sequences, FiniteSets, TLC, Json

Constraints == {"Cloneable", "Send", "Sync"}
TraitSets   == SUBSET Constraints                       \* the 8 declared constraint sets

(* backends: is the builder / the Mem Send, Sync; resizable (reserve, shrink); sizeable (with_capacity); needs alloc *)
B(name, bs, by, ms, my, rz, sz, al) ==
  [name |-> name, bsend |-> bs, bsync |-> by, msend |-> ms, msync |-> my, resizable |-> rz, sizeable |-> sz, alloc |-> al]
Backends == {
  B("Heap",   TRUE,  TRUE,  TRUE,  TRUE,  TRUE,  TRUE,  TRUE),
  B("Stack",  TRUE,  TRUE,  TRUE,  TRUE,  FALSE, FALSE, FALSE),
  B("StackN", TRUE,  TRUE,  TRUE,  TRUE,  FALSE, FALSE, FALSE),
  B("Empty",  TRUE,  TRUE,  TRUE,  TRUE,  FALSE, FALSE, FALSE),
  B("UBnoSend", FALSE, TRUE,  TRUE,  TRUE,  TRUE, FALSE, TRUE),     \* user builder: !Send
  B("UBnoSync", TRUE,  FALSE, TRUE,  TRUE,  TRUE, FALSE, TRUE),     \* user builder: !Sync
  B("UMnoSend", TRUE,  TRUE,  FALSE, TRUE,  TRUE, FALSE, TRUE),     \* user Mem: !Send
  B("UMnoSync", TRUE,  TRUE,  TRUE,  FALSE, TRUE, FALSE, TRUE) }    \* user Mem: !Sync

BSend(b) == b.bsend /\ b.msend
BSync(b) == b.bsync /\ b.msync

(* element classes *)
E(name, s, y, c) == [name |-> name, send |-> s, sync |-> y, clone |-> c]
Elems == {E("SS", TRUE, TRUE, TRUE), E("SendOnly", TRUE, FALSE, TRUE), E("SyncOnly", FALSE, TRUE, TRUE), E("Neither", FALSE, FALSE, TRUE),
          E("SSnoClone", TRUE, TRUE, FALSE), E("SendOnlyNoClone", TRUE, FALSE, FALSE)}

(* ---- the vector itself: EXACTLY when ---- *)
VecSend(ts, b) == "Send" \in ts /\ BSend(b)
VecSync(ts, b) == "Sync" \in ts /\ BSync(b)

(* ---- derived types: which kind of reference to the vector they stand for ---- *)
SharedHandles    == {"ElementRef", "IterRef", "LazyCloneOfElementRef"}
ExclusiveHandles == {"ElementMut", "IterMut", "Element", "Pop", "Remove", "SwapRemove", "Drain", "Splice"}
TypedViews       == {"AnyVecRef", "AnyVecMut"}
TypedIters       == {"TypedDrain", "TypedSplice"}        \* the (opaque) iterators AnyVecMut::drain / splice return: exclusive, typed
ErasedTypes      == SharedHandles \cup ExclusiveHandles

(* &V: Send <=> V: Sync ; &mut V: Send <=> V: Send ; &V, &mut V: Sync <=> V: Sync *)
MaySend(ty, ts, b) == IF ty \in SharedHandles THEN VecSync(ts, b) ELSE VecSend(ts, b)
MaySync(ty, ts, b) == VecSync(ts, b)
(* typed views: additionally the element type's own auto traits, the way &[T] / &mut [T] follow T *)
ViewMaySend(ty, ts, b, e) == (IF ty = "AnyVecRef" THEN VecSync(ts, b) /\ e.sync ELSE VecSend(ts, b) /\ e.send)
ViewMaySync(ty, ts, b, e) == VecSync(ts, b) /\ e.sync

(* ---- constructors and gated methods ---- *)
Admissible(ts, e) == ("Cloneable" \in ts => e.clone) /\ ("Send" \in ts => e.send) /\ ("Sync" \in ts => e.sync)
HasClone(ts)      == "Cloneable" \in ts

(* ---- feature sets (C19) ---- *)
FeatureSets == {"default", "noalloc"}
Available(b, f) == f = "default" \/ ~b.alloc
DefaultBackend(f) == IF f = "default" THEN "Heap" ELSE "Empty"

TsSeq(ts) == (IF "Cloneable" \in ts THEN <<"Cloneable">> ELSE <<>>) \o (IF "Send" \in ts THEN <<"Send">> ELSE <<>>)
             \o (IF "Sync" \in ts THEN <<"Sync">> ELSE <<>>)

(* one case = one query to the compiler, with the verdict the rules give.  dir = "iff": must match exactly;              *)
(* dir = "only_if": the implementation may be stricter (expected FALSE must be FALSE; expected TRUE may be either)       *)
Cases ==
     { [kind |-> "auto", ty |-> "AnyVec", trait |-> t, ts |-> TsSeq(ts), backend |-> b.name, elem |-> "SS", dir |-> "iff",
        expect |-> IF t = "Send" THEN VecSend(ts, b) ELSE VecSync(ts, b)] : ts \in TraitSets, b \in Backends, t \in {"Send", "Sync"} }
  \cup { [kind |-> "auto", ty |-> ty, trait |-> t, ts |-> TsSeq(ts), backend |-> b.name, elem |-> "SS", dir |-> "only_if",
        expect |-> IF t = "Send" THEN MaySend(ty, ts, b) ELSE MaySync(ty, ts, b)]
        : ty \in (ErasedTypes \ {"LazyCloneOfElementRef"}), ts \in TraitSets, b \in Backends, t \in {"Send", "Sync"} }
  \cup { [kind |-> "auto", ty |-> "LazyCloneOfElementRef", trait |-> t, ts |-> TsSeq(ts), backend |-> b.name, elem |-> "SS", dir |-> "only_if",
        expect |-> IF t = "Send" THEN MaySend("LazyCloneOfElementRef", ts, b) ELSE MaySync("LazyCloneOfElementRef", ts, b)]
        : ts \in {s \in TraitSets : "Cloneable" \in s}, b \in Backends, t \in {"Send", "Sync"} }
  \cup { [kind |-> "auto", ty |-> ty, trait |-> t, ts |-> TsSeq(ts), backend |-> b.name, elem |-> e.name, dir |-> "only_if",
        expect |-> IF t = "Send" THEN ViewMaySend(ty, ts, b, e) ELSE ViewMaySync(ty, ts, b, e)]
        : ty \in TypedViews, ts \in TraitSets, b \in {x \in Backends : x.name \in {"Heap", "Stack", "UBnoSend", "UMnoSync"}},
          e \in {x \in Elems : x.clone}, t \in {"Send", "Sync"} }
  \cup { [kind |-> "auto", ty |-> ty, trait |-> t, ts |-> TsSeq(ts), backend |-> b.name, elem |-> e.name, dir |-> "only_if",
        expect |-> IF t = "Send" THEN ViewMaySend("AnyVecMut", ts, b, e) ELSE ViewMaySync("AnyVecMut", ts, b, e)]
        : ty \in TypedIters, ts \in TraitSets, b \in {x \in Backends : x.name \in {"Heap", "Stack", "UBnoSend", "UBnoSync", "UMnoSend", "UMnoSync"}},
          e \in {x \in Elems : x.clone}, t \in {"Send", "Sync"} }
  \cup { [kind |-> "ctor", ty |-> "new", trait |-> "", ts |-> TsSeq(ts), backend |-> b.name, elem |-> e.name, dir |-> "iff",
        expect |-> Admissible(ts, e)] : ts \in TraitSets, b \in {x \in Backends : x.name \in {"Heap", "Stack"}}, e \in Elems }
  \cup { [kind |-> "method", ty |-> m, trait |-> "", ts |-> TsSeq(ts), backend |-> b.name, elem |-> "SS", dir |-> "iff",
        expect |-> CASE m = "clone" -> HasClone(ts)
                     [] m \in {"reserve", "reserve_exact", "shrink_to_fit", "shrink_to"} -> b.resizable
                     [] m \in {"t_reserve", "t_reserve_exact", "t_shrink_to_fit", "t_shrink_to"} -> b.resizable     \* the same four through the typed view
                     [] m = "with_capacity" -> b.sizeable]
        : m \in {"clone", "reserve", "reserve_exact", "shrink_to_fit", "shrink_to", "with_capacity",
                 "t_reserve", "t_reserve_exact", "t_shrink_to_fit", "t_shrink_to"},
          ts \in {{}, {"Cloneable"}, {"Send", "Sync"}, Constraints}, b \in {x \in Backends : x.name \in {"Heap", "Stack", "StackN", "Empty", "UBnoSend"}} }
  \cup { [kind |-> "feature", ty |-> b.name, trait |-> f, ts |-> <<>>, backend |-> b.name, elem |-> "SS", dir |-> "iff",
        expect |-> Available(b, f)] : b \in {x \in Backends : x.name \in {"Heap", "Stack", "StackN", "Empty"}}, f \in FeatureSets }

(* the enumeration as a (stutter-only) state machine so that TLC reports the size of the space and checks the rules' sanity *)
VARIABLE c
Init == c \in Cases
Next == UNCHANGED c
Spec == Init /\ [][Next]_c

EmitInv == PrintT(ToJson(c))
(* sanity of the rule model itself: nothing derived from a vector may cross threads when no reference to it could *)
RuleSanity ==
  /\ \A ts \in TraitSets, b \in Backends :
       /\ (\E ty \in ExclusiveHandles : MaySend(ty, ts, b)) => VecSend(ts, b)
       /\ (\E ty \in SharedHandles : MaySend(ty, ts, b)) => VecSync(ts, b)
       /\ (\E ty \in ErasedTypes : MaySync(ty, ts, b)) => VecSync(ts, b)
  /\ c.kind = "auto" /\ c.ty = "AnyVec" /\ c.expect => \E t \in {"Send", "Sync"} : t = c.trait /\ t \in {c.ts[i] : i \in 1..Len(c.ts)}
=============================================================================
