---------------------------- MODULE TraceAnyVec ----------------------------
(***************************************************************************)
(* Trace validation: events recorded from the real crate are judged by    *)
(* the contract operators of AnyVec.tla.  The trace is a TREE of events    *)
(* (a trie of action paths; a plain trace is the special case of a path):  *)
(* record i of the ndjson file is a node with the positions of its         *)
(* children in `kids`; record 1 is the header (configuration, initial      *)
(* observation).  Each node's event is judged from the model state reached *)
(* at its parent.  Violations are printed as JSON lines when found.        *)
(***************************************************************************)
EXTENDS AnyVec, Json, IOUtils, TLC

Rec == ndJsonDeserialize(IOEnv.TRACE)
TraceCfg == Rec[1].cfg

VARIABLES n, st, bad
tvars == <<n, st, bad>>

Count(s, x) == Cardinality({i \in 1..Len(s) : s[i] = x})
(* equality as multisets; the common case (all distinct) is decided on the sets, which matters for runs of 10^4..10^5 elements *)
BagEq(s, t) ==
  /\ Len(s) = Len(t)
  /\ LET S == ToSet(s) IN
       /\ S = ToSet(t)
       /\ (Cardinality(S) = Len(s) \/ \A x \in S : Count(s, x) = Count(t, x))
V1(ps, q) == [ps |-> ps, q |-> q]

WrongOps == {"push_wrong", "insert_wrong", "swap_wrong", "splice_wrong", "downcast_q", "cross_wrong"}
CloneOps == {"clone_vec", "ce_probe", "fn_ptrs"}
LazyOps  == {"lazy"}
CapOps   == {"reserve", "reserve_exact", "shrink_to_fit", "shrink_to", "recreate"}
ElemOps  == {"debug", "push", "insert", "pop_begin", "remove_begin", "swap_remove_begin", "consume", "hmutate", "tpop",
             "tremove", "tswap_remove", "clear", "get", "mutate", "ext_drop"}
RangeOps == {"drain_begin", "splice_begin", "next", "item_consume", "range_drop", "range_forget"}
IterOps  == {"iter_begin", "iter_next", "iter_clone", "iter_end"}

IsForget(a) == a.op = "range_forget" \/ (a.op \in {"consume", "next", "item_consume"} /\ a.sink.k = "forget")
(* the property a plain behavioural mismatch of this action counts against *)
RECURSIVE Log2Ceil(_)
Log2Ceil(k) == IF k <= 1 THEN 0 ELSE 1 + Log2Ceil((k + 1) \div 2)
PropOf(a) == IF a.op = "place" THEN <<"C12">> ELSE IF a.op = "push_many" THEN <<"C10", "C01">> ELSE IF a.op \in ElemOps THEN <<"C01">>
             ELSE IF a.op = "next" THEN <<"C02", "C14">>          \* which item a range iterator hands out at either end is also the cursor contract
             ELSE IF a.op \in RangeOps THEN <<"C02">>
             ELSE IF a.op \in WrongOps THEN <<"C04">> ELSE IF a.op = "raw_roundtrip" THEN <<"C17">>
             ELSE IF a.op = "swap" THEN <<"C13">> ELSE IF a.op = "spare_write" THEN <<"C12">>
             ELSE IF a.op \in CapOps THEN <<"C10">> ELSE IF a.op \in CloneOps THEN <<"C08">>
             ELSE IF a.op \in LazyOps THEN <<"C09">> ELSE <<"C14">>
PropsOf(a, lat) ==
  PropOf(a) \o (IF IsForget(a) THEN <<"C07">> ELSE <<>>) \o (IF lat \in {"panic", "liar"} THEN <<"C06">> ELSE <<>>)
  \o (IF Cfg.fixed THEN <<"C11">> ELSE <<>>) \o (IF ~Cfg.alloc THEN <<"C19">> ELSE <<>>)

---------------------------------------------------------------------------
(* observation of one vector vs. the model *)
Excl(hk) == hk \in {"tmp", "range", "items"}

VecObsOk(V, o) ==
  /\ o.hk = V.h.k
  /\ IF Excl(V.h.k)
     THEN /\ (V.h.k = "tmp" => o.held = << <<V.h.held[1], V.h.held[2], 1>> >>)
          /\ (V.h.k \in {"range", "items"} => o.kept = V.h.out)
     ELSE /\ o.el = V.el /\ o.len = Len(V.el)

ObservedIds(post) ==
  Concat([i \in 1..Len(VecOrder) |->
            LET o == post[VecOrder[i]] IN
            Ids(o.el) \o [j \in 1..Len(o.held) |-> o.held[j][1]] \o Ids(o.kept)]) \o Ids(post.ext)

(* what ObservedIds would be for a model state (the observable places) *)
ExpectedIds(s) ==
  Concat([i \in 1..Len(VecOrder) |->
            LET V == s.v[VecOrder[i]] IN
            IF V.h.k = "tmp" THEN <<V.h.held[1]>>
            ELSE IF V.h.k \in {"range", "items"} THEN Ids(V.h.out)
            ELSE Ids(V.el)]) \o Ids(s.ext)

(* places of all identities in the observed world must be distinct, well-formed and not known dead/leaked *)
ObsWF(st0, post) ==
  LET ids == ObservedIds(post) IN
  \/ ~Cfg.ids
  \/ /\ NoDup(ids)
     /\ \A i \in 1..Len(ids) : ids[i] >= 0 /\ ids[i] \notin st0.leaked

(* ---- storage: capacity, allocator protocol, block geometry (C05 C10 C11 C12 C18) ---- *)
(* a memory event is <<kind, _, a, b, c, d>>; kinds: 1 alloc 2 dealloc 3 realloc 4 bad free/realloc layout        *)
(* 5 invalid layout reached the allocator 6 canary damaged 10 backend build 11 backend resize 12 expand 13 drop   *)
MemKinds(mem, K) == {j \in 1..Len(mem) : mem[j][1] \in K}
CapEvents(mem) == MemKinds(mem, {1, 2, 3}) \cup {j \in MemKinds(mem, {11}) : mem[j][3] # mem[j][4]}
ProtoViol(mem, canary) ==
     (IF MemKinds(mem, {4}) # {} THEN {V1(<<"C18", "C05">>, "free_presents_live_layout")} ELSE {})
  \cup (IF MemKinds(mem, {5}) # {} THEN {V1(<<"C18">>, "no_invalid_layout_reaches_allocator")} ELSE {})
  \cup (IF MemKinds(mem, {6}) # {} \/ ~canary THEN {V1(<<"C05", "C18">>, "guard_intact")} ELSE {})
  \cup (IF Cfg.backend \in {"stack", "stackn"} /\ MemKinds(mem, {1, 2, 3}) # {} THEN {V1(<<"C11", "C19">>, "no_heap_alloc")} ELSE {})

(* the user backend is built exactly once per vector, with the element type's layout: only the steps that create a vector   *)
(* may call MemBuilder::build (clone -> 1, recreate -> 1, a clone_empty probe -> its own twin(s)); every other step: never    *)
BuildViol(a, mem) ==
  IF Cfg.backend # "fence" THEN {}
  ELSE LET B == MemKinds(mem, {10})
           want == IF a.op \in {"clone_vec", "recreate"} THEN 1 ELSE 0
       IN IF a.op \in {"ce_probe", "cross_wrong", "place"} THEN {}
          ELSE IF Cardinality(B) # want \/ (\E j \in B : mem[j][3] # Cfg.esz \/ mem[j][4] # Cfg.ealign)
               THEN {V1(<<"C05">>, "built_once_with_layout")} ELSE {}

(* a stateful user builder (configurations whose builder logs its life, Cfg.bld): the vector's builder is created by the *)
(* caller, moved - never copied - through a raw-parts round trip, cloned exactly where the API makes a second vector      *)
(* (clone: 1; clone_empty + clone of the twin in the probe: 2; RawParts::clone: 1), and every builder is dropped exactly   *)
(* once with its vector: creations + clones = drops on every step, since the number of vectors never changes               *)
Tracked == "bld" \in DOMAIN Cfg /\ Cfg.bld
BuilderViol(a, mem) ==
  IF ~Tracked THEN {}
  ELSE LET news == Cardinality(MemKinds(mem, {14}))  clones == Cardinality(MemKinds(mem, {15}))  drops == Cardinality(MemKinds(mem, {16}))
           want == CASE a.op = "clone_vec" -> 1
                     [] a.op = "ce_probe" /\ a.via = "same" -> 2
                     [] a.op = "raw_roundtrip" /\ "clone" \in DOMAIN a /\ a.clone -> 1
                     [] OTHER -> 0
       IN (IF clones # want THEN {V1(IF a.op = "raw_roundtrip" THEN <<"C17">> ELSE <<"C08", "C17">>, "builder_moved_not_copied")} ELSE {})
          \cup (IF news + clones # drops THEN {V1(IF a.op = "raw_roundtrip" THEN <<"C17">> ELSE <<"C05", "C17">>, "builder_dropped_once")} ELSE {})

(* a clone_empty_in probe builds a temporary vector on the requested backend: allocator traffic is expected exactly when *)
(* that backend is the heap (or the source's own resizable backend)                                                    *)
ProbeMem(a, mem) ==
  IF (a.op = "ce_probe" /\ (a.via \in {"heap", "fence"} \/ (a.via = "same" /\ ~Cfg.fixed))) \/ (a.op = "cross_wrong" /\ ~Cfg.fixed)
  THEN <<>> ELSE mem

(* the explicit capacity constraint of the step for vector w, or the default derived from the lengths:              *)
(* no growth needed => capacity, block and allocator untouched; growth needed => capacity' >= new length, >= old   *)
CapOf(x, w) == LET c == {j \in 1..Len(x.capc) : x.capc[j].v = w} IN
               IF c = {} THEN [v |-> w, lo |-> -3, hi |-> -3] ELSE x.capc[CHOOSE j \in c : TRUE]

CapViol(stb, x, ev) ==
  LET post == ev.post IN
  UNION {
    LET o == post[w]  Vb == stb.v[w]  c == CapOf(x, w)
        newlen == Len(x.st.v[w].el)
        same == IF x.lat # "exact" THEN FALSE ELSE IF c.lo = -3 THEN newlen <= Vb.cap ELSE c.lo = -2
        lo   == IF x.lat # "exact" THEN 0 ELSE IF c.lo = -3 THEN Max2(newlen, Vb.cap) ELSE c.lo
        hi   == IF c.lo = -3 THEN -1 ELSE c.hi
    IN
    IF Excl(o.hk) \/ Excl(Vb.h.k) THEN {}
    ELSE (IF o.len > o.cap THEN {V1(<<"C10", "C05">>, "len_le_cap")} ELSE {})
         \cup (IF Cfg.fixed /\ o.cap # Cfg.fcap THEN {V1(<<"C11">>, "capacity_formula")} ELSE {})
         \cup (IF ~o.al THEN {V1(<<"C12">>, "base_aligned")} ELSE {})
         \cup (IF ~o.vw THEN {V1(<<"C13", "C12">>, "views_agree")} ELSE {})
         \cup (IF same /\ (o.cap # Vb.cap \/ o.mv) THEN {V1(<<"C10", "C05">>, "noop_unchanged")} ELSE {})
         \cup (IF ~same /\ o.cap < lo THEN {V1(<<"C10">>, "capacity_ge")} ELSE {})
         \cup (IF ~same /\ hi >= 0 /\ o.cap > hi THEN {V1(<<"C10">>, IF hi = lo THEN "heap_shrink_exact" ELSE "shrink_never_grows")} ELSE {})
         \cup (IF Cfg.backend \in {"heap", "fence"}
               THEN (IF o.cap * Cfg.esz = 0
                     THEN (IF o.blk[1] # 0 THEN {V1(<<"C18">>, "none_when_zero")} ELSE {})
                     ELSE (IF o.blk[1] # 1 \/ (o.cap < 100000 /\ o.blk[2] # o.cap * Cfg.esz) THEN {V1(<<"C18", "C05">>, "block_bytes_eq_cap_x_size")} ELSE {})
                          \cup (IF o.blk[1] = 1 /\ o.blk[3] # Cfg.ealign THEN {V1(<<"C18", "C12">>, "block_align")} ELSE {}))
               ELSE {})
    : w \in Vecs }
  \cup (IF x.lat = "exact" /\ (\A w \in Vecs : ~Excl(post[w].hk) /\ ~Excl(stb.v[w].h.k) /\
                  LET c == CapOf(x, w) IN (IF c.lo = -3 THEN Len(x.st.v[w].el) <= stb.v[w].cap ELSE c.lo = -2))
           /\ CapEvents(ev.mem) # {}
        THEN {V1(<<"C10", "C18">>, "no_allocator_traffic_when_capacity_suffices")} ELSE {})
  \cup (IF Cfg.backend \in {"heap", "fence"} /\ (\A w \in Vecs : ~Excl(post[w].hk))
           /\ post.nblk # Cardinality({w \in Vecs : post[w].cap * Cfg.esz # 0})
        THEN {V1(<<"C18">>, "at_most_one_block")} ELSE {})

AdoptCaps(s2, post) ==
  [s2 EXCEPT !.v = [w \in Vecs |-> IF Excl(post[w].hk) THEN s2.v[w] ELSE [s2.v[w] EXCEPT !.cap = post[w].cap]]]

(* zero-sized values have no identity: after a step that may lose elements only a marker records that the count of *)
(* live values is no longer predictable (A9)                                                                     *)
LossMark == IF Cfg.ids THEN {} ELSE {-1}

(* adopt the observed contents (after a step whose outcome the contract leaves open) *)
AdoptAll(s2, post, gone) ==
  LET s3 == [s2 EXCEPT !.v = [w \in Vecs |-> IF Excl(post[w].hk) THEN s2.v[w]
                                             ELSE [s2.v[w] EXCEPT !.el = post[w].el, !.cap = post[w].cap]],
                       !.ext = post.ext]
  IN [s3 EXCEPT !.leaked = @ \cup (gone \ IdSet(AllElems(s3))) \cup LossMark]

---------------------------------------------------------------------------
(* A3: what may be observed after forgetting a removal handle or a range iterator of vector a.v *)
ForgetOk(stb, a, x, post) ==
  LET V == stb.v[a.v]  H == V.h
      i == IF H.k = "tmp" THEN H.idx ELSE H.s
      gone == IF H.k = "tmp" THEN {}
              ELSE IdSet(SubSeq(H.pre, H.s + 1, H.s + H.f)) \cup IdSet(SubSeq(H.pre, H.e - H.b + 1, H.e))
      pool == {H.pre[j] : j \in (i + 1)..Len(H.pre)}
      o == post[a.v]
      tail == SubSeq(o.el, i + 1, Len(o.el))
  IN /\ o.hk = x.st.v[a.v].h.k
     /\ (Excl(o.hk) => o.kept = x.st.v[a.v].h.out)
     /\ (~Excl(o.hk) =>
           /\ Len(o.el) >= i /\ o.len = Len(o.el)
           /\ SubSeq(o.el, 1, i) = SubSeq(H.pre, 1, i)
           /\ \A j \in 1..Len(tail) : tail[j] \in pool /\ tail[j][1] \notin gone
           /\ NoDup(Ids(tail)))
     /\ \A w \in Vecs \ {a.v} : VecObsOk(x.st.v[w], post[w])
     /\ post.ext = x.st.ext

(* A4: after a panic that the contract allows to lose elements: everything visible is alive, intact, once *)
KnownIds(stb, ev) == IdSet(AllElems(stb)) \cup ToSet(ev.born) \cup {ev.clones[j][2] : j \in 1..Len(ev.clones)}
PanicOk(stb, a, ev) ==
  LET known == KnownIds(stb, ev)
      ids == ObservedIds(ev.post) IN
  (Cfg.ids => \A j \in 1..Len(ids) : ids[j] \in known /\ ids[j] \notin ToSet(ev.drops))

(* the state the model continues from after a step whose outcome is only constrained by A4: handles that survive   *)
(* keep the structure the contract gives them, everything observable is adopted, what disappeared without a drop   *)
(* callback is leaked                                                                                              *)
AdoptAfterPanic(stb, x, ev) ==
  LET post == ev.post
      s3 == [x.st EXCEPT !.v = [w \in Vecs |-> IF Excl(x.st.v[w].h.k) THEN x.st.v[w]
                                                ELSE [x.st.v[w] EXCEPT !.el = post[w].el, !.cap = post[w].cap]],
                         !.ext = post.ext, !.leaked = stb.leaked]
  IN [s3 EXCEPT !.leaked = @ \cup ((KnownIds(stb, ev) \ ToSet(ev.drops)) \ IdSet(AllElems(s3))) \cup LossMark]

---------------------------------------------------------------------------
(* identities the contract needs for this step, in the contract's order.  Ordinary steps: the values the driver made.   *)
(* Clone steps: the new identity of the clone callback whose source is the i-th source element (0 when there is none,   *)
(* which then shows up as an element mismatch).  Lazy steps: the new identities in callback order.                        *)
NewOf(cl, src) == LET c == {j \in 1..Len(cl) : cl[j][1] = src} IN IF c = {} THEN 0 ELSE cl[CHOOSE j \in c : TRUE][2]
FreshFor(stb, ev) ==
  LET a == ev.act IN
  IF a.op = "clone_vec" THEN [i \in 1..Len(stb.v[a.v].el) |-> NewOf(ev.clones, stb.v[a.v].el[i][1])]
  ELSE IF a.op = "lazy" THEN [j \in 1..a.n |-> IF j <= Len(ev.clones) THEN ev.clones[j][2] ELSE 0]
  ELSE IF a.op = "fn_ptrs" THEN <<IF Len(ev.clones) >= 1 THEN ev.clones[1][2] ELSE 0>>
  ELSE ev.born

(* notes by which the driver reports that something the library REPORTED about itself is false *)
BadNotes == {"wrong_type_admitted", "badtype", "bad_ce_type", "bad_ce_len", "bad_ce_value", "bad_parts", "bad_parts_clone", "shared_storage", "bad_spare"}

AddProps(S, ps) == {[vv EXCEPT !.ps = @ \o ps] : vv \in S}
(* storage misbehaviour of a vector that was produced by clone() or rebuilt from raw parts also counts against C08 / C17: *)
(* "independent, separately owned storage" resp. "indistinguishable from the original under all further operations"     *)
Derived(stb, a) == IF a.op = "raw_roundtrip" \/ (\E w \in Vecs : stb.v[w].gen = 1) THEN <<"C17", "C08">> ELSE <<>>

IsFault(ev) == "fault" \in DOMAIN ev
DropLive(stb, ev) ==
  ~Cfg.drop \/ ~Cfg.ids \/
  (LET D == ToSet(ev.drops) IN D \subseteq KnownIds(stb, ev) /\ Cardinality(D) = Len(ev.drops))   \* each once, each known
TdMemViol(ev) ==
  IF ev.td.skip THEN {}
  ELSE ProtoViol(ev.td.mem, TRUE)
       \cup (IF ev.td.nblk # 0 THEN {V1(<<"C18", "C05">>, "all_returned")} ELSE {})
       \cup (IF Cfg.backend = "fence" /\ Cardinality(MemKinds(ev.td.mem, {13})) # Cardinality(Vecs)
             THEN {V1(<<"C05">>, "released_once")} ELSE {})
       \cup (IF Tracked /\ Cardinality(MemKinds(ev.td.mem, {16})) # Cardinality(Vecs) + Cardinality(MemKinds(ev.td.mem, {14, 15}))
             THEN {V1(<<"C05", "C17">>, "builder_dropped_once")} ELSE {})

TdViol(s2, ev, extra) ==
  IF ev.td.skip THEN {}
  ELSE IF ev.td.panic
  THEN (* a destructor panicked during teardown: only a splice beyond a fixed capacity may do that (A4) *)
       IF Cfg.fixed /\ (\E w \in Vecs : s2.v[w].h.k = "range" /\ s2.v[w].h.op = "splice") THEN {}
       ELSE {V1(<<"C03">> \o extra, "teardown_panics")}
  ELSE IF ~Cfg.drop THEN {}
  ELSE IF ~Cfg.ids
  THEN (* zero-sized values: accounting by count (A9) *)
       IF s2.leaked = {} /\ (ev.td.zst # 0 \/ Len(ev.td.drops) # Len(AllElems(s2)))
       THEN {V1(<<"C03">> \o extra, "nothing_left")} ELSE {}
  ELSE (IF ToSet(ev.td.live) # s2.leaked THEN {V1(<<"C03">> \o extra, "nothing_left")} ELSE {})
       \cup (IF ~BagEq(ev.td.drops, Ids(AllElems(s2))) THEN {V1(<<"C03">> \o extra, "teardown_drops_once")} ELSE {})

(* C06: the k-th invocation of user code inside the action panicked *)
JudgeFault(stb, ev) ==
  LET a == ev.act
      x == Apply(stb, a, FreshFor(stb, ev))
      post == ev.post
      P == <<"C06">>
      hkOk == \A w \in Vecs : post[w].hk = x.st.v[w].h.k
      wf == ObsWF(stb, post)
      pOk == PanicOk(stb, a, ev)
      dl == DropLive(stb, ev)
      viol0 == (IF ~ev.fired THEN {V1(<<"T00">>, "fault_did_not_fire")} ELSE {})
          \cup (IF ~hkOk THEN {V1(<<"T00">>, "fault_handle_structure")} ELSE {})
          \cup (IF ~wf THEN {V1(P \o <<"C03">>, "visible_live_intact_once")} ELSE {})
          \cup (IF ~pOk THEN {V1(P \o <<"C03">>, "panic_post")} ELSE {})
          \cup (IF ~dl THEN {V1(P \o <<"C03">>, "no_double_drop")} ELSE {})
      diverged == ~ev.fired \/ ~hkOk \/ ~wf \/ ~pOk
      s2 == IF diverged THEN stb ELSE AdoptAfterPanic(stb, x, ev)
      (* a clone_empty_in probe onto an allocating backend legitimately allocates, faulted or not: same exemption as in Judge *)
      proto == ProtoViol(ProbeMem(a, ev.mem), post.canary)
               \cup ProtoViol([j \in 1..Len(ev.mem) |-> IF ev.mem[j][1] \in {1, 2, 3} THEN <<0, 0, 0, 0, 0, 0>> ELSE ev.mem[j]], post.canary)
  IN [st |-> s2, bad |-> diverged, viol |-> viol0 \cup (IF diverged THEN {} ELSE TdViol(s2, ev, P)) \cup proto \cup TdMemViol(ev)]

Judge(stb, ev) ==
  LET a == ev.act IN
  IF ~Applicable(stb, a)
  THEN (* the exploration model reached this action through a state the implementation (legitimately or not) is not in: *)
       (* nothing can be judged here or below; reported as information (T01), never as a verdict                     *)
       [st |-> stb, bad |-> TRUE, viol |-> {V1(<<"T01">>, "not_applicable")}]
  ELSE IF ev.res = "driver_error"
  THEN [st |-> stb, bad |-> TRUE, viol |-> {V1(<<"T00">>, "driver_error")}]
  ELSE IF ev.res = "view_denied"
  THEN (* the typed view of the vector's real element type was refused *)
       [st |-> stb, bad |-> TRUE, viol |-> {V1(<<"C13", "C04">> \o PropsOf(a, "exact"), "typed_view_of_real_type")}]
  ELSE IF IsFault(ev) THEN JudgeFault(stb, ev)
  ELSE
  LET x    == Apply(stb, a, FreshFor(stb, ev))
      post == ev.post
      P    == PropsOf(a, x.lat) \o (IF "dyn" \in DOMAIN ev THEN <<"C06">> ELSE <<>>)
      wf   == ObsWF(stb, post)
      stOk == CASE x.lat = "exact"  -> (\A w \in Vecs : VecObsOk(x.st.v[w], post[w])) /\ post.ext = x.st.ext
                [] x.lat = "forget" -> ForgetOk(stb, a, x, post)
                [] x.lat \in {"panic", "liar"} -> PanicOk(stb, a, ev) /\ (\A w \in Vecs : post[w].hk = x.st.v[w].h.k)
      heldOk == x.lat # "exact" \/ (\A w \in Vecs : x.st.v[w].h.k = "tmp" =>
                   post[w].held = << <<x.st.v[w].h.held[1], x.st.v[w].h.held[2], 1>> >>)
      resOk  == ev.res = x.res \/ (x.lat = "liar" /\ ev.res \in {"ok", "panic"})
      retOk  == x.lat # "exact" \/ ev.res # "ok" \/ ev.ret = x.ret
      (* a clone_empty probe destroys exactly what it created (fresh values and their clones) *)
      xdrops == IF a.op = "ce_probe" THEN ev.born \o [j \in 1..Len(ev.clones) |-> ev.clones[j][2]] ELSE x.drops
      dropOk == ~Cfg.drop \/ x.lat \in {"panic", "liar"} \/ BagEq(ev.drops, xdrops)
      dropLive == DropLive(stb, ev)
      cloneOk == x.lat \in {"panic", "liar"} \/ a.op = "ce_probe"
                 \/ (IF Cfg.ids THEN BagEq([j \in 1..Len(ev.clones) |-> ev.clones[j][1]], x.clones)
                     ELSE Len(ev.clones) = Len(x.clones))          \* zero-sized values: by count (A9)
      hintOk == x.hint = -1 \/ (ev.hint[1] = x.hint /\ ev.hint[2] = x.hint /\ ev.hint[3] = x.hint)
      typeOk == \A j \in 1..Len(ev.note) : ev.note[j] \notin BadNotes
      ceOk == a.op # "ce_probe" \/ ~Cfg.ids \/
              (* the twin takes a fresh value (room >= 1) and a lazy clone of the source's first element (room >= 2, source non-empty),   *)
              (* then is cloned itself: clones = (lazy ? 1 : 0) + elements in the twin                                              *)
              LET room == IF a.via = "empty" THEN 0 ELSE IF a.via = "stackn1" THEN 1
                          ELSE IF a.via = "same" /\ Cfg.fixed THEN (IF Cfg.fcap < 2 THEN Cfg.fcap ELSE 2) ELSE 2
                  lazy == IF room >= 2 /\ stb.v[a.v].el # <<>> THEN 1 ELSE 0
                  held == (IF room >= 1 THEN 1 ELSE 0) + lazy
              IN Len(ev.clones) = (IF Cfg.cloneable THEN lazy + held ELSE 0)
      viol0 ==
           (IF ~resOk  THEN {V1(P, "result")} ELSE {})
      \cup (IF ~stOk   THEN {V1(P \o (IF x.lat = "liar" THEN <<"C06">> ELSE <<>>), IF x.lat = "exact" THEN "elems" ELSE IF x.lat = "forget" THEN "forget_post" ELSE "panic_post")} ELSE {})
      \cup (IF ~wf     THEN {V1(<<"C03">> \o P, "single_place")} ELSE {})
      \cup (IF x.lat = "exact" /\ ~stOk /\ ~BagEq(ObservedIds(post), ExpectedIds(x.st))
            THEN {V1(<<"C03">> \o P, "elements_lost_or_duplicated")} ELSE {})
      \cup (IF ~heldOk THEN {V1(<<"C13">> \o P, "handle_reports_true")} ELSE {})
      \cup (IF ~retOk  THEN {V1(P \o (IF a.op \in {"get", "mutate", "hmutate", "iter_next", "pop_begin", "remove_begin", "swap_remove_begin", "consume"}
                                      THEN <<"C13">> ELSE <<>>), "returned")} ELSE {})
      \cup (IF ~dropOk THEN {V1(<<"C03">> \o P, "drops_match")} ELSE {})
      \cup (IF ~dropLive THEN {V1(<<"C03">> \o P, "drop_once")} ELSE {})
      \cup (IF ~cloneOk THEN {V1(P \o <<"C03">>, "clones_match")} ELSE {})
      \cup (IF ~hintOk THEN {V1(<<"C14">>, "size_hint_exact")} ELSE {})
      \cup (IF ~typeOk THEN {V1(<<"C13", "C04">> \o P \o (IF a.op = "raw_roundtrip" THEN <<"C17">> ELSE <<>>), "reports_true")} ELSE {})
      \cup (IF ~ceOk THEN {V1(P, "empty_twin_clones")} ELSE {})
      \cup (IF a.op = "push_many" /\ Cardinality(CapEvents(ev.mem)) > 4 * Log2Ceil(a.n) + 4 THEN {V1(<<"C10">>, "amortised")} ELSE {})
      diverged == ~resOk \/ ~stOk \/ ~wf
      (* next model state *)
      gone == IdSet(AllElems(stb)) \cup ToSet(ev.born)
      s2 == IF diverged THEN stb
            ELSE IF x.lat = "exact" THEN AdoptCaps(x.st, post)
            ELSE IF x.lat \in {"panic", "liar"} THEN AdoptAfterPanic(stb, x, ev)
            ELSE AdoptAll([x.st EXCEPT !.leaked = stb.leaked], post, gone \ ToSet(ev.drops))
      capv == (IF diverged THEN {} ELSE CapViol(stb, x, [ev EXCEPT !.mem = ProbeMem(a, @)])) \cup ProtoViol(ProbeMem(a, ev.mem), post.canary)
              \cup (IF ev.res = "ok" THEN BuildViol(a, ev.mem) \cup BuilderViol(a, ev.mem) ELSE {})
              \cup ProtoViol([j \in 1..Len(ev.mem) |-> IF ev.mem[j][1] \in {1, 2, 3} THEN <<0, 0, 0, 0, 0, 0>> ELSE ev.mem[j]], post.canary)
      tdv == IF diverged THEN {} ELSE TdViol(s2, ev, (IF IsForget(a) THEN <<"C07">> ELSE <<>>) \o (IF "dyn" \in DOMAIN ev THEN <<"C06">> ELSE <<>>))
  IN [st |-> s2, bad |-> diverged, viol |-> viol0 \cup AddProps(capv \cup TdMemViol(ev), Derived(stb, a)) \cup tdv]

---------------------------------------------------------------------------
TInit == /\ n = 1
         /\ st = AdoptCaps(Init0, Rec[1].init)
         /\ bad = FALSE

(* C19: without the alloc feature a stack-backed vector behaves exactly as in the default build - whatever goes wrong in the *)
(* no-alloc build of the harness also counts against C19                                                                   *)
NoAllocToo(V) == IF Cfg.alloc THEN V ELSE {IF "C19" \in ToSet(vv.ps) \/ "T00" \in ToSet(vv.ps) \/ "T01" \in ToSet(vv.ps) THEN vv ELSE [vv EXCEPT !.ps = @ \o <<"C19">>] : vv \in V}

TNext == \E j \in 1..Len(Rec[n].kids) :
           LET c  == Rec[n].kids[j]
               ev == Rec[c]
               r  == IF bad THEN [st |-> st, bad |-> TRUE, viol |-> {}] ELSE Judge(st, ev) IN
           /\ n' = c
           /\ st' = r.st
           /\ bad' = r.bad
           /\ (r.viol = {} \/ PrintT(ToJson([node |-> ev.id, viol |-> SetToSeq(NoAllocToo(r.viol))])))

TSpec == TInit /\ [][TNext]_tvars

(* the initial observation: fixed capacities follow the formula, storage is aligned *)
InitViol == CapViol(Init0, Out(Init0, "ok", <<>>, <<>>), [post |-> Rec[1].init, mem |-> Rec[1].init.mem])
            \cup ProtoViol(Rec[1].init.mem, Rec[1].init.canary)
            \cup (IF Cfg.backend = "fence" /\
                     (Cardinality(MemKinds(Rec[1].init.mem, {10})) # Cardinality(Vecs) \/
                      MemKinds(Rec[1].init.mem, {10, 14}) # 1..Len(Rec[1].init.mem) \/
                      \E j \in MemKinds(Rec[1].init.mem, {10}) : Rec[1].init.mem[j][3] # Cfg.esz \/ Rec[1].init.mem[j][4] # Cfg.ealign)
                  THEN {V1(<<"C05">>, "built_once_with_layout")} ELSE {})
InitOk == InitViol = {} \/ PrintT(ToJson([node |-> 0, viol |-> SetToSeq(NoAllocToo(InitViol))]))
ASSUME InitOk
=============================================================================
