SPECIFICATION TSpec
CONSTANTS
  Vecs = {"a", "b"}
  Cfg <- TraceCfg
CHECK_DEADLOCK FALSE
