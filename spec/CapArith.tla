---------------------------- MODULE CapArith ----------------------------
(***************************************************************************)
(* The capacity arithmetic of a resizable backend (C10), integers only,    *)
(* for an UNBOUNDED argument with Apalache.  The growth rule is the one    *)
(* the contract layer demands of an amortised growth step (capacity' at    *)
(* least doubles and covers the request; HeapMem::expand takes the         *)
(* smallest such value), the explicit requests (reserve_exact, shrink_to,  *)
(* shrink_to_fit) are the exact ones.  `moved` counts the elements that    *)
(* amortised growth steps had to relocate since the last explicit request, *)
(* `grows` the number of such steps, `pow` = 2^grows (kept as a variable,    *)
(* exponentiation is outside the fragment), `base` the capacity after that *)
(* request.                                                                *)
(*                                                                         *)
(* IndInv is inductive and says, for vectors and push runs of ANY length:  *)
(*   len <= cap;                                                           *)
(*   moved <= cap       - relocation work is bounded by the final          *)
(*                        capacity: O(1) amortised per push;               *)
(*   cap <= 2 * max(peak, base) + ... is NOT claimed (reserve may ask for  *)
(*                        anything); what is claimed is that every growth  *)
(*                        at least doubles: cap >= base + grows and        *)
(*                        moved + cap0 <= cap where cap0 is the capacity   *)
(*                        the run started from.                            *)
(***************************************************************************)
EXTENDS Integers

VARIABLES
  \* @type: Int;
  len,
  \* @type: Int;
  cap,
  \* @type: Int;
  moved,
  \* @type: Int;
  grows,
  \* @type: Int;
  base,
  \* @type: Int;
  pow

Init == len = 0 /\ cap \in Nat /\ moved = 0 /\ grows = 0 /\ base = cap /\ pow = 1

(* an amortised growth step for a request of `need` total elements: at least double, at least the request *)
Grow(need) ==
  /\ cap' \in Nat /\ cap' >= 2 * cap /\ cap' >= need
  /\ moved' = moved + len /\ grows' = grows + 1 /\ pow' = 2 * pow /\ UNCHANGED base

Push ==
  /\ len' = len + 1
  /\ IF len = cap THEN Grow(len + 1) ELSE UNCHANGED <<cap, moved, grows, base, pow>>

Pop == len > 0 /\ len' = len - 1 /\ UNCHANGED <<cap, moved, grows, base, pow>>

(* reserve(n): no-op when capacity suffices, an amortised growth step otherwise *)
Reserve ==
  \E n \in Nat :
    /\ UNCHANGED len
    /\ IF len + n <= cap THEN UNCHANGED <<cap, moved, grows, base, pow>> ELSE Grow(len + n)

(* explicit requests: exact results, they restart the accounting *)
ReserveExact ==
  \E n \in Nat :
    /\ UNCHANGED len
    /\ IF len + n <= cap THEN UNCHANGED <<cap, moved, grows, base, pow>>
       ELSE cap' \in Nat /\ cap' >= len + n /\ moved' = 0 /\ grows' = 0 /\ base' = cap' /\ pow' = 1
ShrinkTo ==
  \E m \in Nat :
    /\ UNCHANGED len
    /\ cap' = (IF m > len THEN (IF m < cap THEN m ELSE cap) ELSE (IF len < cap THEN len ELSE cap))    \* min(cap, max(len, m))
    /\ IF cap' = cap THEN UNCHANGED <<moved, grows, base, pow>> ELSE moved' = 0 /\ grows' = 0 /\ base' = cap' /\ pow' = 1

Next == Push \/ Pop \/ Reserve \/ ReserveExact \/ ShrinkTo

IndInv ==
  /\ len >= 0 /\ cap >= 0 /\ moved >= 0 /\ grows >= 0 /\ base >= 0
  /\ len <= cap
  /\ base <= cap
  /\ moved + base <= cap                 \* relocation work of amortised growth never exceeds the capacity it bought
  /\ (grows = 0 => moved = 0 /\ cap = base)
  /\ pow >= 1 /\ (grows = 0 <=> pow = 1)
  /\ (grows > 0 => 2 * cap >= pow)      \* pow = 2^grows by construction: cap >= 2^(grows-1), the number of reallocations is logarithmic
IndInit ==
  /\ len \in Int /\ cap \in Int /\ moved \in Int /\ grows \in Int /\ base \in Int /\ pow \in Int
  /\ IndInv

(* what the property states, as consequences of IndInv *)
Promises == len <= cap /\ moved <= cap
=============================================================================
