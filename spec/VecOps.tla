------------------------------- MODULE VecOps -------------------------------
(***************************************************************************)
(* std::vec::Vec semantics as pure operators over TLA+ sequences.  This is *)
(* the reference "what Vec would hold" used by the contract (AnyVec.tla).  *)
(* Indices are 0-based as in Rust; sequences are 1-based as in TLA+.       *)
(***************************************************************************)
EXTENDS Naturals, Integers, Sequences, FiniteSets

VPush(s, x)          == Append(s, x)
VInsert(s, i, x)     == SubSeq(s, 1, i) \o <<x>> \o SubSeq(s, i + 1, Len(s))
VRemove(s, i)        == SubSeq(s, 1, i) \o SubSeq(s, i + 2, Len(s))
VSwapRemove(s, i)    == IF i + 1 = Len(s) THEN SubSeq(s, 1, i)
                        ELSE SubSeq(s, 1, i) \o <<s[Len(s)]>> \o SubSeq(s, i + 2, Len(s) - 1)
VPop(s)              == SubSeq(s, 1, Len(s) - 1)
VAt(s, i)            == s[i + 1]
VSet(s, i, x)        == [s EXCEPT ![i + 1] = x]
VDrainYield(s, a, b) == SubSeq(s, a + 1, b)                  \* elements of a..b
VDrainRest(s, a, b)  == SubSeq(s, 1, a) \o SubSeq(s, b + 1, Len(s))
VSplice(s, a, b, r)  == SubSeq(s, 1, a) \o r \o SubSeq(s, b + 1, Len(s))
VTruncate(s, n)      == SubSeq(s, 1, n)

Rev(s) == [i \in 1..Len(s) |-> s[Len(s) + 1 - i]]

(***************************************************************************)
(* RangeBounds -> Range<usize>, over a machine word 0..MaxU.               *)
(* form: <<startKind, endKind>> with kinds "inc", "exc", "unb".            *)
(* Result: [ok |-> TRUE, s, e]  or  [ok |-> FALSE] (the call must panic:   *)
(* start > end, end > len, or a bound that is not representable).          *)
(* MaxU stands for usize::MAX; a bound value v >= MaxU - 8 stands for      *)
(* usize::MAX - (MaxU - v).                                                *)
(***************************************************************************)
IntoRange(len, sk, sv, ek, ev, MaxU) ==
  LET sOver == sk = "exc" /\ sv = MaxU
      eOver == ek = "inc" /\ ev = MaxU
      s == CASE sk = "inc" -> sv [] sk = "exc" -> sv + 1 [] OTHER -> 0
      e == CASE ek = "inc" -> ev + 1 [] ek = "exc" -> ev [] OTHER -> len
  IN IF sOver \/ eOver \/ s > e \/ e > len THEN [ok |-> FALSE, s |-> 0, e |-> 0]
     ELSE [ok |-> TRUE, s |-> s, e |-> e]
=============================================================================
