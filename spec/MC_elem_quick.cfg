SPECIFICATION Spec
CONSTANTS
  Vecs = {"a", "b"}
  Cfg <- CfgHeap
  Alpha = {"push","insert","pop","remove","swap_remove","typed","clear","get","mutate","hmutate","ext_drop","forget"}
  MaxLen = 3
  MaxExt = 1
  MaxOut = 0
  MaxRepl = 0
  MaxIters = 1
  MaxDepth = 30
  Srcs = {"wrapper","raw","typed"}
  Forms = {}
VIEW View
ACTION_CONSTRAINT Emit
INVARIANT OwnershipInv HandleInv
PROPERTY LeakOnlyBy
CHECK_DEADLOCK FALSE
