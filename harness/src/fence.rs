//! Instrumented storage: guarded blocks (mmap, block end against a PROT_NONE page, canary in front, poison fill,
//! always relocate, quarantine of released blocks), used (a) by `FenceAlloc`, the #[global_allocator] of the harness,
//! for every allocation made by code under test, and (b) by `FenceMemBuilder`, a user-defined relocating
//! `MemBuilder`/`Mem`/`MemResizable`.  All protocol events go to the callback log (reg::log); nothing in here allocates.
#![allow(static_mut_refs)]
use crate::reg::{self, Cb};
use any_vec::mem::{Mem, MemBuilder, MemBuilderSizeable, MemResizable};
use core::alloc::Layout;
use std::alloc::{GlobalAlloc, System};
use std::ffi::c_void;

extern "C" {
    fn mmap(addr: *mut c_void, len: usize, prot: i32, flags: i32, fd: i32, off: i64) -> *mut c_void;
    fn munmap(addr: *mut c_void, len: usize) -> i32;
    fn mprotect(addr: *mut c_void, len: usize, prot: i32) -> i32;
}
const PROT_NONE: i32 = 0;
const PROT_RW: i32 = 3;
const MAP_PRIVATE_ANON: i32 = 0x22;
const PAGE: usize = 4096;
const POISON: u8 = 0xCD;
const CANARY: u8 = 0xFB;

// event kinds (Cb::Mem first field)
pub const K_ALLOC: u8 = 1;        // a = bytes, b = align, c = block id
pub const K_DEALLOC: u8 = 2;      // a = bytes, b = align, c = block id
pub const K_REALLOC: u8 = 3;      // a = old bytes, b = align, c = new bytes, d = block id (new)
pub const K_BAD_FREE: u8 = 4;     // dealloc/realloc presented a layout different from the live block's (or unknown pointer)
pub const K_BAD_LAYOUT: u8 = 5;   // request with an invalid layout (size overflowing isize) reached the allocator
pub const K_CANARY: u8 = 6;       // guard bytes around a block were overwritten
pub const K_FM_BUILD: u8 = 10;    // a = elem size, b = elem align, c = mem id
pub const K_FM_RESIZE: u8 = 11;   // a = old size (elements), b = new size, c = mem id
pub const K_FM_EXPAND: u8 = 12;   // a = additional, b = exact?1:0, c = mem id
pub const K_FM_DROP: u8 = 13;     // a = size (elements) at release, c = mem id
pub const K_B_NEW: u8 = 14;       // tracked builder created by the driver; c = token
pub const K_B_CLONE: u8 = 15;     // tracked builder cloned; a = source token, c = new token
pub const K_B_DROP: u8 = 16;      // tracked builder dropped; c = token

#[derive(Clone, Copy)]
struct Blk { region: usize, rlen: usize, ptr: usize, bytes: usize, align: usize, live: bool, id: u32, stale: bool }
const NBLK: usize = 8192;
static mut BLKS: [Blk; NBLK] = [Blk { region: 0, rlen: 0, ptr: 0, bytes: 0, align: 0, live: false, id: 0, stale: false }; NBLK];
static mut NB: usize = 0;
static mut NEXT_BLK: u32 = 1;
static mut HARNESS_DEPTH: u32 = 1; // > 0: allocations belong to the harness (untracked).  Starts untracked.
static mut TABLE_FULL: bool = false;

/// RAII scope: allocations inside belong to the harness, not to the code under test
pub struct HarnessScope;
impl HarnessScope { pub fn new() -> Self { unsafe { HARNESS_DEPTH += 1; } HarnessScope } }
impl Drop for HarnessScope { fn drop(&mut self) { unsafe { HARNESS_DEPTH -= 1; } } }
/// RAII scope: code under test runs (allocations are tracked, fenced and logged)
pub struct TrackedScope(u32);
impl TrackedScope { pub fn new() -> Self { unsafe { let d = HARNESS_DEPTH; HARNESS_DEPTH = 0; TrackedScope(d) } } }
impl Drop for TrackedScope { fn drop(&mut self) { unsafe { HARNESS_DEPTH = self.0; } } }

fn tracked() -> bool { unsafe { HARNESS_DEPTH == 0 && !std::thread::panicking() } }

unsafe fn fence_new(bytes: usize, align: usize) -> Option<usize> {
    if NB >= NBLK { TABLE_FULL = true; return None; }
    let front = align.max(64);
    let usable = (bytes + front + align + PAGE - 1) / PAGE * PAGE;
    let rlen = usable + PAGE;
    let r = mmap(core::ptr::null_mut(), rlen, PROT_RW, MAP_PRIVATE_ANON, -1, 0) as usize;
    if r == usize::MAX || r == 0 { return None; }
    mprotect((r + usable) as *mut c_void, PAGE, PROT_NONE);
    let end = (r + usable) / align * align;
    let ptr = end - bytes;
    core::ptr::write_bytes(r as *mut u8, CANARY, ptr - r);
    core::ptr::write_bytes(ptr as *mut u8, POISON, bytes);
    core::ptr::write_bytes(end as *mut u8, CANARY, r + usable - end);
    let id = NEXT_BLK; NEXT_BLK += 1;
    BLKS[NB] = Blk { region: r, rlen, ptr, bytes, align, live: true, id, stale: false };
    NB += 1;
    if r < LO { LO = r; }
    if r + rlen > HI { HI = r + rlen; }
    Some(ptr)
}
/// address range spanned by all regions in the table: almost every pointer of the system allocator lies outside and is
/// rejected without a scan (the table can hold thousands of leaked blocks when the code under test leaks)
static mut LO: usize = usize::MAX;
static mut HI: usize = 0;
unsafe fn find(ptr: usize) -> Option<usize> {
    if ptr < LO || ptr >= HI { return None; }
    for i in (0..NB).rev() { if BLKS[i].ptr == ptr && BLKS[i].live { return Some(i); } }
    None
}
unsafe fn canary_ok(b: &Blk) -> bool {
    let usable = b.rlen - PAGE;
    let end = b.ptr + b.bytes;
    let front = core::slice::from_raw_parts(b.region as *const u8, b.ptr - b.region);
    let back = core::slice::from_raw_parts(end as *const u8, b.region + usable - end);
    front.iter().all(|x| *x == CANARY) && back.iter().all(|x| *x == CANARY)
}
/// release a guarded block: check canaries, then make the whole region inaccessible (quarantine)
unsafe fn fence_release(i: usize) {
    if !canary_ok(&BLKS[i]) { reg::log(Cb::Mem(K_CANARY, 0, BLKS[i].bytes as u32, BLKS[i].align as u32, BLKS[i].id, 0)); }
    BLKS[i].live = false;
    mprotect(BLKS[i].region as *mut c_void, BLKS[i].rlen, PROT_NONE);
}
/// forget all guarded blocks (between cases)
pub fn reset() {
    unsafe {
        // released (quarantined) blocks are unmapped; blocks that are still live (they belong to something that outlived
        // the case) stay mapped but are no longer counted
        let mut k = 0;
        for i in 0..NB {
            if BLKS[i].live { BLKS[k] = BLKS[i]; BLKS[k].stale = true; k += 1; }
            else { munmap(BLKS[i].region as *mut c_void, BLKS[i].rlen); }
        }
        // blocks leaked by the code under test pile up here; what the harness itself carries over a case boundary is freed
        // at the start of the next case, so anything older than STALE_KEEP newer survivors is a leak: give it back
        const STALE_KEEP: usize = 1024;
        if k > STALE_KEEP {
            let cut = k - STALE_KEEP;
            for i in 0..cut { munmap(BLKS[i].region as *mut c_void, BLKS[i].rlen); }
            for i in cut..k { BLKS[i - cut] = BLKS[i]; }
            k -= cut;
        }
        NB = k; NEXT_BLK = 1; TABLE_FULL = false;
        LO = usize::MAX; HI = 0;
        for i in 0..NB { if BLKS[i].region < LO { LO = BLKS[i].region; } if BLKS[i].region + BLKS[i].rlen > HI { HI = BLKS[i].region + BLKS[i].rlen; } }
    }
}
/// (live, bytes, align) of the guarded block starting at `ptr`
pub fn lookup(ptr: usize) -> (bool, usize, usize) {
    unsafe { match find(ptr) { Some(i) => (true, BLKS[i].bytes, BLKS[i].align), None => (false, 0, 0) } }
}
pub fn live_blocks() -> usize { unsafe { (0..NB).filter(|i| BLKS[*i].live && !BLKS[*i].stale).count() } }
pub fn stale_blocks() -> usize { unsafe { (0..NB).filter(|i| BLKS[*i].stale).count() } }
pub fn table_full() -> bool { unsafe { TABLE_FULL } }
/// all live guarded blocks still have intact canaries?
pub fn canaries_ok() -> bool { unsafe { (0..NB).filter(|i| BLKS[*i].live && !BLKS[*i].stale).all(|i| canary_ok(&BLKS[i])) } }

fn clamp(x: usize) -> u32 { if x > 0x3fff_ffff { 0x3fff_ffff } else { x as u32 } }
fn layout_valid(size: usize, align: usize) -> bool {
    align.is_power_of_two() && size <= (isize::MAX as usize) - (align - 1)
}

pub struct FenceAlloc;
unsafe impl GlobalAlloc for FenceAlloc {
    unsafe fn alloc(&self, l: Layout) -> *mut u8 {
        if !tracked() { return System.alloc(l); }
        if !layout_valid(l.size(), l.align()) {
            reg::log(Cb::Mem(K_BAD_LAYOUT, 0, clamp(l.size()), l.align() as u32, 0, 0));
            return core::ptr::null_mut();
        }
        if l.size() > (1 << 30) { return core::ptr::null_mut(); }
        match fence_new(l.size(), l.align()) {
            Some(p) => { reg::log(Cb::Mem(K_ALLOC, 0, clamp(l.size()), l.align() as u32, BLKS[NB - 1].id, 0)); p as *mut u8 }
            None => core::ptr::null_mut(),
        }
    }
    unsafe fn dealloc(&self, p: *mut u8, l: Layout) {
        match find(p as usize) {
            Some(i) => {
                if BLKS[i].bytes != l.size() || BLKS[i].align != l.align() {
                    reg::log(Cb::Mem(K_BAD_FREE, 0, clamp(l.size()), l.align() as u32, BLKS[i].id, clamp(BLKS[i].bytes)));
                }
                reg::log(Cb::Mem(K_DEALLOC, 0, clamp(l.size()), l.align() as u32, BLKS[i].id, 0));
                fence_release(i);
            }
            None => {
                if tracked() && !owned_by_system(p as usize) {
                    reg::log(Cb::Mem(K_BAD_FREE, 0, clamp(l.size()), l.align() as u32, 0, 0));
                    return;
                }
                System.dealloc(p, l)
            }
        }
    }
    unsafe fn realloc(&self, p: *mut u8, l: Layout, new_size: usize) -> *mut u8 {
        match find(p as usize) {
            Some(i) => {
                if BLKS[i].bytes != l.size() || BLKS[i].align != l.align() {
                    reg::log(Cb::Mem(K_BAD_FREE, 0, clamp(l.size()), l.align() as u32, BLKS[i].id, clamp(BLKS[i].bytes)));
                }
                if !layout_valid(new_size, l.align()) {
                    reg::log(Cb::Mem(K_BAD_LAYOUT, 0, clamp(new_size), l.align() as u32, 0, 0));
                    return core::ptr::null_mut();
                }
                if new_size > (1 << 30) { return core::ptr::null_mut(); }
                let old = BLKS[i];
                match fence_new(new_size, l.align()) {
                    Some(np) => {
                        core::ptr::copy_nonoverlapping(old.ptr as *const u8, np as *mut u8, old.bytes.min(new_size));
                        reg::log(Cb::Mem(K_REALLOC, 0, clamp(l.size()), l.align() as u32, clamp(new_size), BLKS[NB - 1].id));
                        fence_release(i);
                        np as *mut u8
                    }
                    None => core::ptr::null_mut(),
                }
            }
            None => System.realloc(p, l, new_size),
        }
    }
}
/// a pointer that is not one of our live guarded blocks is assumed to come from the system allocator unless it lies
/// inside one of our (possibly quarantined) regions
unsafe fn owned_by_system(p: usize) -> bool {
    for i in 0..NB { if p >= BLKS[i].region && p < BLKS[i].region + BLKS[i].rlen { return false; } }
    true
}

// ----------------------------------------------------------------------------------------------------------------------
/// User-defined relocating backend.
/// `K` = granularity of `expand`: capacities grown through `expand` are rounded up to a multiple of K (K = 1: no rounding).
/// A backend that gives MORE than requested exercises the capacity latitude from the backend's side.
#[derive(Clone, Default)]
pub struct FenceMemBuilderK<const K: usize>;
pub type FenceMemBuilder = FenceMemBuilderK<1>;
pub struct FenceMem { ptr: usize, size: usize, layout: Layout, id: u32, k: usize }
static mut NEXT_FM: u32 = 1;
pub fn reset_fm() { unsafe { NEXT_FM = 1; } }

impl<const K: usize> MemBuilder for FenceMemBuilderK<K> {
    type Mem = FenceMem;
    fn build(&mut self, element_layout: Layout) -> FenceMem {
        let id = unsafe { let i = NEXT_FM; NEXT_FM += 1; i };
        reg::log(Cb::Mem(K_FM_BUILD, 0, element_layout.size() as u32, element_layout.align() as u32, id, 0));
        FenceMem { ptr: element_layout.align(), size: 0, layout: element_layout, id, k: K.max(1) }
    }
}
impl<const K: usize> MemBuilderSizeable for FenceMemBuilderK<K> {
    fn build_with_size(&mut self, element_layout: Layout, capacity: usize) -> FenceMem {
        let mut m = self.build(element_layout);
        m.resize(capacity);
        m
    }
}
impl Mem for FenceMem {
    fn as_ptr(&self) -> *const u8 { self.ptr as *const u8 }
    fn as_mut_ptr(&mut self) -> *mut u8 { self.ptr as *mut u8 }
    fn element_layout(&self) -> Layout { self.layout }
    fn size(&self) -> usize { self.size }
    fn expand(&mut self, additional: usize) {
        reg::log(Cb::Mem(K_FM_EXPAND, 0, clamp(additional), 0, self.id, 0));
        // growth policy differs from Heap's on purpose: +50% (at least the request)
        let want = self.size.checked_add(additional).expect("capacity overflow");
        let grown = self.size + self.size / 2 + 1;
        let n = want.max(grown);
        let rounded = n.checked_add(self.k - 1).expect("capacity overflow") / self.k * self.k;
        self.resize(rounded);
    }
}
impl MemResizable for FenceMem {
    fn expand_exact(&mut self, additional: usize) {
        reg::log(Cb::Mem(K_FM_EXPAND, 0, clamp(additional), 1, self.id, 0));
        let want = self.size.checked_add(additional).expect("capacity overflow");
        self.resize(want);
    }
    fn resize(&mut self, new_size: usize) {
        if new_size == self.size { reg::log(Cb::Mem(K_FM_RESIZE, 0, clamp(self.size), clamp(new_size), self.id, 0)); return; }
        let old_size = self.size;
        let esz = self.layout.size();
        let bytes = esz.checked_mul(new_size).expect("capacity overflow");
        assert!(bytes <= (1 << 30), "capacity overflow");
        unsafe {
            let old = if esz != 0 && self.size != 0 { find(self.ptr) } else { None };
            let np = if bytes == 0 { self.layout.align() } else {
                let _t = HarnessScope::new();
                fence_new(bytes, self.layout.align()).expect("fence table exhausted")
            };
            if let Some(i) = old {
                core::ptr::copy_nonoverlapping(self.ptr as *const u8, np as *mut u8, (esz * self.size).min(bytes));
                fence_release(i);
            }
            self.ptr = np;
        }
        self.size = new_size;
        // logged once the capacity has actually changed (a refused request is not a capacity event)
        reg::log(Cb::Mem(K_FM_RESIZE, 0, clamp(old_size), clamp(new_size), self.id, 0));
    }
}
impl Drop for FenceMem {
    fn drop(&mut self) {
        reg::log(Cb::Mem(K_FM_DROP, 0, clamp(self.size), 0, self.id, 0));
        unsafe { if self.layout.size() != 0 && self.size != 0 { if let Some(i) = find(self.ptr) { fence_release(i); } } }
        self.size = 0;
    }
}

// ----------------------------------------------------------------------------------------------------------------------
/// The same relocating backend with a STATEFUL builder (every instance carries a token; creation, clone and drop are
/// logged) whose Mem can be taken apart into raw parts: the builder of a vector is moved through a raw-parts round trip,
/// cloned exactly where the API says so, and dropped exactly once.
pub struct FenceRawBuilder { tok: u32 }
static mut NEXT_TOK: u32 = 1;
pub fn reset_tok() { unsafe { NEXT_TOK = 1; } }
fn next_tok() -> u32 { unsafe { let t = NEXT_TOK; NEXT_TOK += 1; t } }
impl FenceRawBuilder {
    pub fn new() -> Self { let tok = next_tok(); reg::log(Cb::Mem(K_B_NEW, 0, 0, 0, tok, 0)); FenceRawBuilder { tok } }
}
impl Clone for FenceRawBuilder {
    fn clone(&self) -> Self { let tok = next_tok(); reg::log(Cb::Mem(K_B_CLONE, 0, self.tok, 0, tok, 0)); FenceRawBuilder { tok } }
}
impl Drop for FenceRawBuilder {
    fn drop(&mut self) { reg::log(Cb::Mem(K_B_DROP, 0, 0, 0, self.tok, 0)); }
}
impl MemBuilder for FenceRawBuilder {
    type Mem = FenceMem;
    fn build(&mut self, element_layout: Layout) -> FenceMem { FenceMemBuilderK::<1>.build(element_layout) }
}
impl MemBuilderSizeable for FenceRawBuilder {
    fn build_with_size(&mut self, element_layout: Layout, capacity: usize) -> FenceMem { FenceMemBuilderK::<1>.build_with_size(element_layout, capacity) }
}
#[derive(Clone)]
pub struct FenceHandle { ptr: usize, id: u32, k: usize }
impl any_vec::mem::MemRawParts for FenceMem {
    type Handle = FenceHandle;
    fn into_raw_parts(self) -> (FenceHandle, Layout, usize) {
        let this = core::mem::ManuallyDrop::new(self);
        (FenceHandle { ptr: this.ptr, id: this.id, k: this.k }, this.layout, this.size)
    }
    unsafe fn from_raw_parts(h: FenceHandle, element_layout: Layout, size: usize) -> Self {
        FenceMem { ptr: h.ptr, size, layout: element_layout, id: h.id, k: h.k }
    }
}
