//! Identity-tagged element family.  The identity and a payload bit are encoded in the element's
//! bytes; the remaining bytes are an identity- and position-dependent canary, so a misplaced,
//! truncated or poison-filled element decodes as garbage (id -1).
use crate::reg;

pub trait Elem: 'static + Sized + Clone {
    const SZ: usize;
    const AL: usize;
    const DROP: bool;
    const NAME: &'static str;
    fn make(id: u32, pay: u8) -> Self;
    fn bytes(&self) -> &[u8];
    fn bytes_mut(&mut self) -> &mut [u8];
    fn decode_self(&self) -> (i64, i64) { decode(self.bytes()) }
    fn toggle(&mut self) { toggle_bytes(self.bytes_mut()) }
}

pub fn max_id(sz: usize) -> u32 {
    match sz { 0 => 0, 1 => 127, 2 => 255, _ => 65535 }
}

pub fn encode(b: &mut [u8], id: u32, pay: u8) {
    let n = b.len();
    match n {
        0 => {}
        1 => b[0] = (((id & 0x7f) as u8) << 1) | (pay & 1),
        2 => { b[0] = id as u8; b[1] = pay; }
        3 => { b[0] = id as u8; b[1] = (id >> 8) as u8; b[2] = pay; }
        _ => {
            b[0] = id as u8;
            b[1] = (id >> 8) as u8;
            b[2] = pay;
            b[3] = b[0] ^ b[1] ^ pay ^ 0xA5;
            for k in 4..n { b[k] = canary(id, k); }
        }
    }
}
#[inline]
fn canary(id: u32, k: usize) -> u8 { (id.wrapping_mul(7).wrapping_add((k as u32).wrapping_mul(13)).wrapping_add(1)) as u8 }

/// (id, pay); id = -1 when the bytes are not a well-formed element
pub fn decode(b: &[u8]) -> (i64, i64) {
    let n = b.len();
    match n {
        0 => (0, 0),
        1 => ((b[0] >> 1) as i64, (b[0] & 1) as i64),
        2 => if b[1] <= 1 { (b[0] as i64, b[1] as i64) } else { (-1, b[1] as i64) },
        3 => { let id = b[0] as i64 | ((b[1] as i64) << 8); if b[2] <= 1 { (id, b[2] as i64) } else { (-1, b[2] as i64) } }
        _ => {
            let id = b[0] as u32 | ((b[1] as u32) << 8);
            let pay = b[2];
            let mut ok = pay <= 1 && b[3] == b[0] ^ b[1] ^ pay ^ 0xA5;
            for k in 4..n { ok &= b[k] == canary(id, k); }
            if ok { (id as i64, pay as i64) } else { (-1, pay as i64) }
        }
    }
}
pub fn toggle_bytes(b: &mut [u8]) {
    let (id, pay) = decode(b);
    if id >= 0 { encode(b, id as u32, (pay as u8) ^ 1); }
}
pub unsafe fn decode_ptr(p: *const u8, sz: usize) -> (i64, i64) {
    decode(core::slice::from_raw_parts(p, sz))
}

macro_rules! elem {
    ($name:ident, $sz:expr, $al:expr, drop) => {
        elem!(@base $name, $sz, $al, true);
        impl Drop for $name {
            fn drop(&mut self) {
                if $sz == 0 { reg::zst_drop(); } else {
                    let (id, _) = decode(&self.b);
                    reg::on_drop(if id < 0 { u32::MAX } else { id as u32 });
                }
            }
        }
    };
    ($name:ident, $sz:expr, $al:expr, nodrop) => {
        elem!(@base $name, $sz, $al, false);
    };
    (@base $name:ident, $sz:expr, $al:expr, $drop:expr) => {
        #[repr(C, align($al))]
        pub struct $name { b: [u8; $sz] }
        impl Elem for $name {
            const SZ: usize = $sz;
            const AL: usize = $al;
            const DROP: bool = $drop;
            const NAME: &'static str = stringify!($name);
            fn make(id: u32, pay: u8) -> Self {
                assert!(id <= max_id($sz) || $sz == 0, "identity too large for element size");
                if $sz == 0 { reg::zst_new(); }
                let mut b = [0u8; $sz];
                encode(&mut b, id, pay);
                $name { b }
            }
            fn bytes(&self) -> &[u8] { &self.b }
            fn bytes_mut(&mut self) -> &mut [u8] { &mut self.b }
        }
        impl Clone for $name {
            fn clone(&self) -> Self {
                if $sz == 0 { reg::zst_clone(); return $name { b: [0u8; $sz] }; }
                let (id, pay) = decode(&self.b);
                let nid = reg::on_clone(if id < 0 { u32::MAX } else { id as u32 });
                let mut b = [0u8; $sz];
                encode(&mut b, nid, pay as u8 & 1);
                $name { b }
            }
        }
        const _: () = assert!(core::mem::size_of::<$name>() == $sz && core::mem::align_of::<$name>() == $al);
    };
}

// name: E<size>a<align><d|n>
elem!(E8a8d, 8, 8, drop);
elem!(E8a8n, 8, 8, nodrop);
elem!(E0a1d, 0, 1, drop);
elem!(E0a1n, 0, 1, nodrop);
elem!(E1a1n, 1, 1, nodrop);
elem!(E1a1d, 1, 1, drop);
elem!(E2a2d, 2, 2, drop);
elem!(E3a1d, 3, 1, drop);
elem!(E3a1n, 3, 1, nodrop);
elem!(E12a4d, 12, 4, drop);
elem!(E16a16d, 16, 16, drop);
elem!(E24a8d, 24, 8, drop);
elem!(E32a32d, 32, 32, drop);
elem!(E64a64n, 64, 64, nodrop);
elem!(E160a32d, 160, 32, drop);
elem!(E160a8d, 160, 8, drop);

// same size / alignment, different type: for wrong-type checks (C04)
elem!(X8a8d, 8, 8, drop);
elem!(Y8a8n, 8, 8, nodrop);
elem!(Z16a8d, 16, 8, drop);
