//! Identity registry and callback log.  No allocation happens in here: element `Drop`/`Clone`
//! run inside library calls and must not disturb the allocator log.
#![allow(static_mut_refs)]

pub const MAX_ID: usize = 1 << 16;
pub const CB_CAP: usize = 1 << 18;

#[derive(Clone, Copy)]
pub enum Cb {
    Drop(u32),
    Clone(u32, u32), // src, new
    Next,
    Len,
    Mem(u8, u8, u32, u32, u32, u32), // kind, vec, a, b, c, d   (see fence.rs)
}

pub const UNBORN: u8 = 0;
pub const LIVE: u8 = 1;
pub const DEAD: u8 = 2;

static mut NEXT_ID: u32 = 1;
static mut STATE: [u8; MAX_ID] = [0; MAX_ID];
static mut CLONE_OF: [u32; MAX_ID] = [0; MAX_ID];
static mut CBS: [Cb; CB_CAP] = [Cb::Next; CB_CAP];
static mut NCB: usize = 0;
static mut CB_OVERFLOW: bool = false;
static mut COUNTDOWN: i64 = -1; // user-callback panic injection: panics when it reaches 0
static mut USER_CALLS: u64 = 0;
static mut ZST_LIVE: i64 = 0;
static mut ZST_DROPS: u64 = 0;

pub fn reset() {
    crate::fence::reset();
    crate::fence::reset_fm();
    crate::fence::reset_tok();
    unsafe {
        for i in 0..(NEXT_ID as usize).min(MAX_ID) {
            STATE[i] = UNBORN;
            CLONE_OF[i] = 0;
        }
        NEXT_ID = 1;
        NCB = 0;
        CB_OVERFLOW = false;
        COUNTDOWN = -1;
        USER_CALLS = 0;
        ZST_LIVE = 0;
        ZST_DROPS = 0;
    }
}

pub fn fresh_id() -> u32 {
    unsafe {
        let id = NEXT_ID;
        NEXT_ID += 1;
        assert!((id as usize) < MAX_ID, "identity space exhausted");
        STATE[id as usize] = LIVE;
        id
    }
}

pub fn state_of(id: u32) -> u8 {
    unsafe { if (id as usize) < MAX_ID { STATE[id as usize] } else { UNBORN } }
}
pub fn clone_of(id: u32) -> u32 {
    unsafe { if (id as usize) < MAX_ID { CLONE_OF[id as usize] } else { 0 } }
}
pub fn next_id() -> u32 { unsafe { NEXT_ID } }

pub fn live_ids() -> Vec<u32> {
    unsafe { (1..NEXT_ID).filter(|i| STATE[*i as usize] == LIVE).collect() }
}

pub fn log(cb: Cb) {
    unsafe {
        if NCB < CB_CAP {
            CBS[NCB] = cb;
            NCB += 1;
        } else {
            CB_OVERFLOW = true;
        }
    }
}
pub fn take_cbs() -> (Vec<Cb>, bool) {
    unsafe {
        let v = CBS[..NCB].to_vec();
        NCB = 0;
        let o = CB_OVERFLOW;
        CB_OVERFLOW = false;
        (v, o)
    }
}
pub fn clear_cbs() { unsafe { NCB = 0; CB_OVERFLOW = false; } }

/// One invocation of user code (element Drop, element Clone, replacement-iterator next).
/// Panics when the injected countdown reaches zero.
pub fn user_call(what: &'static str) {
    unsafe {
        USER_CALLS += 1;
        // user code that runs while the thread is already unwinding (destructors run by an expected panic, e.g. a rejected
        // wrong-typed value) is never made to panic: a second panic there aborts any Rust program, whatever the library does
        if COUNTDOWN > 0 && !std::thread::panicking() {
            COUNTDOWN -= 1;
            if COUNTDOWN == 0 {
                COUNTDOWN = -1;
                panic!("injected:{}", what);
            }
        }
    }
}
pub fn user_calls() -> u64 { unsafe { USER_CALLS } }
pub fn set_countdown(k: i64) { unsafe { COUNTDOWN = k; } }
pub fn countdown() -> i64 { unsafe { COUNTDOWN } }

pub fn on_drop(id: u32) {
    unsafe {
        if (id as usize) < MAX_ID {
            // a second drop of the same identity is logged again; the specification sees it
            STATE[id as usize] = DEAD;
        }
    }
    log(Cb::Drop(id));
    user_call("drop");
}
pub fn on_clone(src: u32) -> u32 {
    user_call("clone"); // a panicking clone creates nothing
    let id = fresh_id();
    unsafe { CLONE_OF[id as usize] = src; }
    log(Cb::Clone(src, id));
    id
}
pub fn zst_new() { unsafe { ZST_LIVE += 1; } }
pub fn zst_drop() { unsafe { ZST_LIVE -= 1; ZST_DROPS += 1; } log(Cb::Drop(0)); user_call("drop"); }
pub fn zst_clone() { user_call("clone"); unsafe { ZST_LIVE += 1; } log(Cb::Clone(0, 0)); }
pub fn zst_live() -> i64 { unsafe { ZST_LIVE } }
/// forget accounting for values that are intentionally leaked by the driver (raw-pointer moves)
pub fn mark_dead_silently(id: u32) { unsafe { if (id as usize) < MAX_ID { STATE[id as usize] = DEAD; } } }
