mod elem;
mod fence;
mod interp;
mod reg;

#[global_allocator]
static GLOBAL: fence::FenceAlloc = fence::FenceAlloc;

use elem::*;
use interp::*;
use serde_json::{json, Value};
use std::io::{BufRead, BufWriter, Write};

macro_rules! config {
    ($name:ident, $label:expr, $tr:ty, $m:ty, $mb:expr, $e:ty, $fixed:expr, $fcap:expr, $backend:expr $(, $cap:ident)*) => {
        pub struct $name;
        impl Config for $name {
            type Tr = $tr;
            type M = $m;
            type E = $e;
            const NAME: &'static str = $label;
            fn mem_builder() -> Self::M { $mb }
            fn new_xvec() -> V<Self> { any_vec::AnyVec::new_in::<X8a8d>($mb) }
            fn backend() -> (bool, i64, &'static str) { ($fixed, $fcap, $backend) }
            $( config!(@cap $cap, $e); )*
        }
    };
    (@cap resizable, $e:ty) => {
        const RESIZABLE: bool = true;
        fn cap_op(v: &mut V<Self>, op: &str, n: usize, typed: bool) -> bool {
            if typed {
                let mut t = v.downcast_mut::<$e>().expect("driver: type");
                match op { "reserve" => t.reserve(n), "reserve_exact" => t.reserve_exact(n), "shrink_to_fit" => t.shrink_to_fit(), _ => t.shrink_to(n) }
            } else {
                match op { "reserve" => v.reserve(n), "reserve_exact" => v.reserve_exact(n), "shrink_to_fit" => v.shrink_to_fit(), _ => v.shrink_to(n) }
            }
            true
        }
        fn with_capacity(n: usize) -> Option<V<Self>> { Some(any_vec::AnyVec::with_capacity_in::<$e>(n, Self::mem_builder())) }
    };
    (@cap rawparts, $e:ty) => {
        const RAWPARTS: bool = true;
        fn raw_ops(w: &mut World<Self>, a: &Value, out: &mut ActOut) -> bool { raw_ops_impl::<Self>(w, a, out) }
    };
    (@cap tracked, $e:ty) => {
        const BUILDER_TRACKED: bool = true;
    };
    (@cap cloneable, $e:ty) => {
        const CLONEABLE: bool = true;
        fn clone_vec(v: &V<Self>) -> Option<V<Self>> { Some(v.clone()) }
        fn clone_ops(w: &mut World<Self>, a: &Value, out: &mut ActOut) -> bool { clone_ops_impl::<Self>(w, a, out) }
    };
}

use any_vec::mem::{Stack, StackN};
use any_vec::traits::{Cloneable, None as TNone, Send, Sync};
#[cfg(feature = "alloc")]
use any_vec::mem::Heap;

#[cfg(feature = "alloc")]
config!(CHeap8d, "heap8d", dyn TNone, Heap, Heap, E8a8d, false, 0, "heap", resizable, rawparts);
#[cfg(feature = "alloc")]
config!(CHeap8c, "heap8c", dyn Cloneable, Heap, Heap, E8a8d, false, 0, "heap", resizable, rawparts, cloneable);
#[cfg(feature = "alloc")]
config!(CHeap3c, "heap3c", dyn Cloneable, Heap, Heap, E3a1n, false, 0, "heap", resizable, rawparts, cloneable);
#[cfg(feature = "alloc")]
config!(CHeap0c, "heap0c", dyn Cloneable, Heap, Heap, E0a1d, false, 0, "heap", resizable, rawparts, cloneable);
#[cfg(feature = "alloc")]
config!(CHeap8s, "heap8s", dyn Send, Heap, Heap, E8a8d, false, 0, "heap", resizable, rawparts);
#[cfg(feature = "alloc")]
config!(CHeap8y, "heap8y", dyn Sync, Heap, Heap, E8a8d, false, 0, "heap", resizable, rawparts);
#[cfg(feature = "alloc")]
config!(CHeap8sy, "heap8sy", dyn Send + Sync, Heap, Heap, E8a8d, false, 0, "heap", resizable, rawparts);
#[cfg(feature = "alloc")]
config!(CHeap8cs, "heap8cs", dyn Cloneable + Send, Heap, Heap, E8a8d, false, 0, "heap", resizable, rawparts, cloneable);
#[cfg(feature = "alloc")]
config!(CHeap8cy, "heap8cy", dyn Cloneable + Sync, Heap, Heap, E8a8d, false, 0, "heap", resizable, rawparts, cloneable);
config!(CStack8sy, "stack8sy", dyn Send + Sync, Stack<24>, Stack::<24>, E8a8d, true, 3, "stack");
#[cfg(feature = "alloc")]
config!(CHeap8css, "heap8css", dyn Cloneable + Send + Sync, Heap, Heap, E8a8d, false, 0, "heap", resizable, rawparts, cloneable);
config!(CEmpty8d, "empty8d", dyn TNone, any_vec::mem::Empty, any_vec::mem::Empty, E8a8d, true, 0, "empty", rawparts);
config!(CEmpty0c, "empty0c", dyn Cloneable, any_vec::mem::Empty, any_vec::mem::Empty, E0a1d, true, 0, "empty", rawparts, cloneable);
config!(CStack8c, "stack8c", dyn Cloneable, Stack<24>, Stack::<24>, E8a8d, true, 3, "stack", cloneable);
#[cfg(feature = "alloc")]
config!(CHeap8n, "heap8n", dyn TNone, Heap, Heap, E8a8n, false, 0, "heap", resizable, rawparts);
#[cfg(feature = "alloc")]
config!(CHeap3n, "heap3n", dyn TNone, Heap, Heap, E3a1n, false, 0, "heap", resizable, rawparts);
#[cfg(feature = "alloc")]
config!(CHeap160, "heap160", dyn Cloneable, Heap, Heap, E160a8d, false, 0, "heap", resizable, rawparts, cloneable);
#[cfg(feature = "alloc")]
config!(CHeap0d, "heap0d", dyn TNone, Heap, Heap, E0a1d, false, 0, "heap", resizable, rawparts);
#[cfg(feature = "alloc")]
config!(CHeap1n, "heap1n", dyn TNone, Heap, Heap, E1a1n, false, 0, "heap", resizable, rawparts);
#[cfg(feature = "alloc")]
config!(CHeap2d, "heap2d", dyn TNone, Heap, Heap, E2a2d, false, 0, "heap", resizable, rawparts);
#[cfg(feature = "alloc")]
config!(CHeap12d, "heap12d", dyn TNone, Heap, Heap, E12a4d, false, 0, "heap", resizable, rawparts);
#[cfg(feature = "alloc")]
config!(CHeap16d, "heap16d", dyn TNone, Heap, Heap, E16a16d, false, 0, "heap", resizable, rawparts);
#[cfg(feature = "alloc")]
config!(CHeap24d, "heap24d", dyn TNone, Heap, Heap, E24a8d, false, 0, "heap", resizable, rawparts);
#[cfg(feature = "alloc")]
config!(CHeap32d, "heap32d", dyn TNone, Heap, Heap, E32a32d, false, 0, "heap", resizable, rawparts);
#[cfg(feature = "alloc")]
config!(CHeap64n, "heap64n", dyn TNone, Heap, Heap, E64a64n, false, 0, "heap", resizable, rawparts);
#[cfg(feature = "alloc")]
config!(CHeap160a32, "heap160a32", dyn TNone, Heap, Heap, E160a32d, false, 0, "heap", resizable, rawparts);
#[cfg(feature = "alloc")]
config!(CHeap0n, "heap0n", dyn TNone, Heap, Heap, E0a1n, false, 0, "heap", resizable, rawparts);
config!(CFence8d, "fence8d", dyn TNone, fence::FenceMemBuilder, fence::FenceMemBuilderK::<1>, E8a8d, false, 0, "fence", resizable);
config!(CFence3n, "fence3n", dyn TNone, fence::FenceMemBuilder, fence::FenceMemBuilderK::<1>, E3a1n, false, 0, "fence", resizable);
config!(CFence24d, "fence24d", dyn Cloneable, fence::FenceMemBuilder, fence::FenceMemBuilderK::<1>, E24a8d, false, 0, "fence", resizable, cloneable);
config!(CFence160, "fence160", dyn TNone, fence::FenceMemBuilder, fence::FenceMemBuilderK::<1>, E160a32d, false, 0, "fence", resizable);
config!(CFenceOver8d, "fenceover8d", dyn TNone, fence::FenceMemBuilderK<4>, fence::FenceMemBuilderK::<4>, E8a8d, false, 0, "fence", resizable);
config!(CFenceOver3c, "fenceover3c", dyn Cloneable, fence::FenceMemBuilderK<8>, fence::FenceMemBuilderK::<8>, E3a1n, false, 0, "fence", resizable, cloneable);
config!(CFenceRaw8c, "fenceraw8c", dyn Cloneable, fence::FenceRawBuilder, fence::FenceRawBuilder::new(), E8a8d, false, 0, "fence", resizable, rawparts, cloneable, tracked);
config!(CFence0d, "fence0d", dyn TNone, fence::FenceMemBuilder, fence::FenceMemBuilderK::<1>, E0a1d, false, 0, "fence", resizable);
config!(CStack24x3, "stack24x3", dyn TNone, Stack<72>, Stack::<72>, E24a8d, true, 3, "stack");
config!(CStack8x3m, "stack8x3m", dyn TNone, Stack<31>, Stack::<31>, E8a8d, true, 3, "stack");
config!(CStack8x3p, "stack8x3p", dyn TNone, Stack<25>, Stack::<25>, E8a8d, true, 3, "stack");
config!(CStack8x2p, "stack8x2p", dyn TNone, Stack<23>, Stack::<23>, E8a8d, true, 2, "stack");
config!(CStackN2, "stackn2", dyn TNone, StackN<2, 17>, StackN::<2, 17>, E8a8d, true, 2, "stackn");
config!(CStack0d, "stack0d", dyn TNone, Stack<4>, Stack::<4>, E0a1d, true, 1_000_000_000, "stack");
config!(CStack16x4, "stack16x4", dyn TNone, Stack<64>, Stack::<64>, E16a16d, true, 4, "stack");
config!(CStack32x4, "stack32x4", dyn TNone, Stack<128>, Stack::<128>, E32a32d, true, 4, "stack");
config!(CStack64x2, "stack64x2", dyn TNone, Stack<128>, Stack::<128>, E64a64n, true, 2, "stack");
config!(CStackN3, "stackn3", dyn Cloneable, StackN<3, 24>, StackN::<3, 24>, E8a8d, true, 3, "stackn", cloneable);

fn cfg_json<C: Config>(profile: &str) -> Value {
    let (fixed, fcap, backend) = C::backend();
    json!({
        "name": C::NAME, "fixed": fixed, "fcap": fcap, "backend": backend,
        "esz": C::E::SZ, "ealign": C::E::AL, "drop": C::E::DROP, "ids": C::E::SZ != 0,
        "cloneable": C::CLONEABLE, "resizable": C::RESIZABLE, "trackcap": false, "maxu": MAXU, "profile": profile,
        "alloc": cfg!(feature = "alloc"), "elem": C::E::NAME, "bld": C::BUILDER_TRACKED
    })
}

// CPU watchdog: a case normally needs micro- to milliseconds of CPU; if the code under test does not terminate, the process is
// killed by SIGVTALRM after WATCHDOG_S seconds of its own user CPU time (independent of machine load) and the running case is
// reported like any other crash.  Re-armed whenever a case marker is written.
#[repr(C)] struct TimeVal { sec: i64, usec: i64 }
#[repr(C)] struct ITimerVal { interval: TimeVal, value: TimeVal }
extern "C" { fn setitimer(which: i32, new: *const ITimerVal, old: *mut ITimerVal) -> i32; }
const WATCHDOG_S: i64 = 30;
fn arm_watchdog() {
    let t = ITimerVal { interval: TimeVal { sec: 0, usec: 0 }, value: TimeVal { sec: WATCHDOG_S, usec: 0 } };
    unsafe { setitimer(1 /* ITIMER_VIRTUAL */, &t, std::ptr::null_mut()); }
}

fn disarm_watchdog() {
    let t = ITimerVal { interval: TimeVal { sec: 0, usec: 0 }, value: TimeVal { sec: 0, usec: 0 } };
    unsafe { setitimer(1, &t, std::ptr::null_mut()); }
}

struct Node { id: i64, parent: i64, act: Value }

fn load_cases(path: &str) -> Vec<Node> {
    let f = std::fs::File::open(path).expect("cases file");
    let mut v = vec![];
    for line in std::io::BufReader::new(f).lines() {
        let line = line.unwrap();
        if line.trim().is_empty() { continue; }
        let j: Value = serde_json::from_str(&line).expect("case json");
        v.push(Node { id: j["id"].as_i64().unwrap(), parent: j["parent"].as_i64().unwrap(), act: j["act"].clone() });
    }
    v
}

fn fnv(s: &str) -> u64 {
    // whether a reallocation moved the block is the allocator's business and not reproducible
    let s = s.replace("\"mv\":true", "\"mv\":false");
    let mut h: u64 = 0xcbf29ce484222325;
    for b in s.bytes() { h ^= b as u64; h = h.wrapping_mul(0x100000001b3); }
    h
}

/// Replays the case trie and writes a TLC-ready tree trace: line 1 is the header, line p is the node with
/// position p, `kids` are positions.  `shard = (i, n)`: the nodes of depth < SPLIT_DEPTH are in every shard,
/// deeper nodes belong to the shard their depth-SPLIT_DEPTH ancestor hashes to.
fn replay<C: Config>(cases: &str, out: &str, shard: (usize, usize), nvecs: usize, profile: &str, skip: &[i64], faults: bool) {
    let nodes = load_cases(cases);
    let mut index = std::collections::HashMap::new();
    for (k, n) in nodes.iter().enumerate() { index.insert(n.id, k); }
    let nn = nodes.len();
    let mut par = vec![usize::MAX; nn];
    let mut skipped = vec![false; nn];
    for k in 0..nn {
        let n = &nodes[k];
        skipped[k] = skip.contains(&n.id);
        if n.parent != 0 {
            let pk = *index.get(&n.parent).expect("parent before child");
            assert!(pk < k, "parent before child");
            par[k] = pk;
            skipped[k] |= skipped[pk];
        }
    }
    // subtree sizes; cut the tree into subtrees of bounded size, spread them over the shards; every ancestor
    // of a cut is "common" (present in every shard)
    let mut size = vec![1usize; nn];
    for k in (0..nn).rev() { if par[k] != usize::MAX { size[par[k]] += size[k]; } }
    let limit = (nn / (shard.1 * 16)).max(1);
    let mut owner = vec![usize::MAX; nn]; // usize::MAX = common
    let mut load = vec![0usize; shard.1];
    for k in 0..nn {
        if par[k] != usize::MAX && owner[par[k]] != usize::MAX { owner[k] = owner[par[k]]; continue; }
        if shard.1 == 1 || size[k] > limit { continue; } // common
        let (best, _) = load.iter().enumerate().min_by_key(|(_, l)| **l).unwrap();
        owner[k] = best;
        load[best] += size[k];
    }
    let mut member = vec![false; nn];
    for k in 0..nn { member[k] = !skipped[k] && (owner[k] == usize::MAX || owner[k] == shard.0); }
    let mut pos = vec![0usize; nn];
    let mut p = 1usize;
    for k in 0..nn { if member[k] { p += 1; pos[k] = p; } }
    let mut kids: Vec<Vec<usize>> = vec![vec![]; nn];
    let mut roots = vec![];
    for k in 0..nn { if member[k] { if par[k] == usize::MAX { roots.push(pos[k]); } else { kids[par[k]].push(pos[k]); } } }

    let marks = std::fs::File::create(format!("{}.run", out)).expect("marker file");
    let mut marks = BufWriter::new(marks);
    reg::reset();
    reg::clear_cbs();
    // constructing the empty vectors is already code under test: a panic here is data, not a tool failure
    let mut w0: World<C> = match std::panic::catch_unwind(|| World::<C>::new(nvecs)) {
        Ok(w) => w,
        Err(_) => {
            let f = std::fs::File::create(out).expect("out file");
            let mut w = BufWriter::new(f);
            writeln!(w, "{}", json!({"id": 0, "cfg": cfg_json::<C>(profile), "init": {}, "kids": [], "nvecs": nvecs})).unwrap();
            w.flush().unwrap();
            writeln!(marks, "INIT").unwrap();
            marks.flush().unwrap();
            std::process::exit(4);
        }
    };
    let (icbs, _) = reg::take_cbs();
    let (_, _, _, _, init_mem) = cbs_json(&icbs);
    let mut init = w0.observe();
    init["mem"] = json!(init_mem);
    let _ = w0.teardown();
    let _ = (&pos, &kids, &roots);
    // events are buffered: positions of dynamically created nodes (fault runs, health probes) are only known at the end
    let mut evs: Vec<(usize, Value)> = vec![]; // (parent position, event); position of evs[i] is i + 2
    let mut posof = vec![0usize; nn];
    let mut postsig = vec![0u64; nn];
    let mut nondet = 0u64;
    let mut nondet_at: Vec<(i64, i64)> = vec![];
    let mut dyn_id: i64 = nodes.iter().map(|n| n.id).max().unwrap_or(0) + 1 + (shard.0 as i64) * 100_000_000;
    let mut fault_runs = 0u64;
    for k in 0..nn {
        if !member[k] { continue; }
        let n = &nodes[k];
        let mut chain = vec![k];
        let mut q = par[k];
        while q != usize::MAX { chain.push(q); q = par[q]; }
        chain.reverse();
        writeln!(marks, "{}", n.id).unwrap();
        marks.flush().unwrap();
        arm_watchdog();
        let ppos = if par[k] == usize::MAX { 1 } else { posof[par[k]] };
        // ---- the judged, fault-free execution
        let run_prefix = |postsig: &Vec<u64>, nondet: &mut u64, nondet_at: &mut Vec<(i64, i64)>, check: bool| -> World<C> {
            reg::reset();
            let mut world: World<C> = World::new(nvecs);
            let _ = world.observe();
            for &pk in &chain[..chain.len() - 1] {
                if let Some(fk) = nodes[pk].act.get("_fault").and_then(|f| f.as_i64()) { reg::set_countdown(fk); }
                let _ = world.step(&nodes[pk].act);
                reg::set_countdown(-1);
                let obs = world.observe().to_string();
                if check && fnv(&obs) != postsig[pk] { *nondet += 1; nondet_at.push((nodes[pk].id, n.id)); if std::env::var("VERIF_DEBUG").is_ok() && *nondet < 3 { eprintln!("NONDET {} {}: {}", nodes[pk].id, n.id, obs); } }
            }
            world.notes.clear();
            world
        };
        let mut world = run_prefix(&postsig, &mut nondet, &mut nondet_at, true);
        let calls0 = reg::user_calls();
        let own_fault = n.act.get("_fault").and_then(|f| f.as_i64());
        if let Some(fk) = own_fault { reg::set_countdown(fk); }
        let (o, cbs, ovf) = world.step(&n.act);
        let own_fired = own_fault.is_some() && reg::countdown() < 0;
        reg::set_countdown(-1);
        let ncalls = if own_fault.is_some() { 0 } else { reg::user_calls() - calls0 };
        let post = world.observe();
        postsig[k] = fnv(&post.to_string());
        if std::env::var("VERIF_DEBUG").is_ok() && n.id <= 2 { eprintln!("FIRST {}: {}", n.id, post); }
        let mut ev = event_json::<C>(n.id, &n.act, &o, &cbs, ovf, &post, &mut world);
        if let Some(fk) = own_fault { ev["fault"] = json!(fk); ev["fired"] = json!(own_fired); }
        finish_td::<C>(&mut ev, &mut world, false);
        evs.push((ppos, ev));
        posof[k] = evs.len() + 1;
        // ---- fault enumeration: the k-th invocation of user code inside this action panics
        if faults && ncalls > 0 && ncalls <= 24 && o.res != "panic" {
            for f in 1..=ncalls {
                writeln!(marks, "{}", n.id).unwrap();
                marks.flush().unwrap();
                arm_watchdog();
                let mut world = run_prefix(&postsig, &mut nondet, &mut nondet_at, false);
                reg::set_countdown(f as i64);
                let (o, cbs, ovf) = world.step(&n.act);
                let fired = reg::countdown() < 0;
                reg::set_countdown(-1);
                let post = world.observe();
                dyn_id += 1;
                let mut ev = event_json::<C>(dyn_id, &n.act, &o, &cbs, ovf, &post, &mut world);
                ev["fault"] = json!(f);
                ev["fired"] = json!(fired);
                ev["dyn"] = json!({"base": n.id, "chain": [n.act.clone()]});
                let mut chain_acts = vec![n.act.clone()];
                fault_runs += 1;
                // health probe: every outstanding handle is released, every vector read, extended and cleared
                let mut cur_parent = ppos;
                let mut cur = ev;
                let mut guard = 0;
                loop {
                    let next = world.next_probe();
                    guard += 1;
                    match next {
                        Some(act) if guard < 40 => {
                            finish_td::<C>(&mut cur, &mut world, true);
                            evs.push((cur_parent, cur));
                            cur_parent = evs.len() + 1;
                            let (o, cbs, ovf) = world.step(&act);
                            let post = world.observe();
                            dyn_id += 1;
                            chain_acts.push(act.clone());
                            cur = event_json::<C>(dyn_id, &act, &o, &cbs, ovf, &post, &mut world);
                            cur["dyn"] = json!({"base": n.id, "fault": f, "chain": chain_acts.clone()});
                        }
                        _ => break,
                    }
                }
                finish_td::<C>(&mut cur, &mut world, false);
                evs.push((cur_parent, cur));
            }
        }
    }
    disarm_watchdog();
    // positions are final: compute kids and write
    let total = evs.len();
    let mut kidsv: Vec<Vec<usize>> = vec![vec![]; total + 2];
    for (i, (pp, _)) in evs.iter().enumerate() { kidsv[*pp].push(i + 2); }
    let f = std::fs::File::create(out).expect("out file");
    let mut w = BufWriter::new(f);
    writeln!(w, "{}", json!({"id": 0, "cfg": cfg_json::<C>(profile), "init": init, "kids": kidsv[1], "nvecs": nvecs})).unwrap();
    for (i, (_, ev)) in evs.iter_mut().enumerate() {
        ev["kids"] = json!(kidsv[i + 2]);
        writeln!(w, "{}", ev).unwrap();
    }
    w.flush().unwrap();
    for (a, b) in nondet_at.iter().take(200) { writeln!(marks, "NONDET {} {}", a, b).unwrap(); }
    writeln!(marks, "FAULTS {}", fault_runs).unwrap();
    writeln!(marks, "DONE {} {}", total, nondet).unwrap();
    marks.flush().unwrap();
}

struct Rng(u64);
impl Rng {
    fn next(&mut self) -> u64 { let mut x = self.0; x ^= x << 13; x ^= x >> 7; x ^= x << 17; self.0 = x; x }
    fn below(&mut self, n: usize) -> usize { if n == 0 { 0 } else { (self.next() % n as u64) as usize } }
    fn chance(&mut self, pct: usize) -> bool { self.below(100) < pct }
    fn pick<'a>(&mut self, xs: &[&'a str]) -> &'a str { xs[self.below(xs.len())] }
}

/// Direction B: one long random history on large vectors, logged as a chain of events (every event judged by TLC).
/// The driver only uses what it legitimately knows (which handles it holds, lengths it read through the API) to pick
/// applicable actions; it judges nothing.
fn random_run<C: Config>(out: &str, seed: u64, steps: usize, maxlen: usize, nvecs: usize, profile: &str, faultpct: usize) {
    let mut rng = Rng(seed.wrapping_mul(0x9E3779B97F4A7C15) | 1);
    for _ in 0..8 { rng.next(); }
    reg::reset();
    reg::clear_cbs();
    let f = std::fs::File::create(out).expect("out file");
    let mut w = BufWriter::new(f);
    let marks = std::fs::File::create(format!("{}.run", out)).expect("marker file");
    let mut marks = BufWriter::new(marks);
    let mut world: World<C> = match std::panic::catch_unwind(|| World::<C>::new(nvecs)) {
        Ok(w) => w,
        Err(_) => {
            writeln!(w, "{}", json!({"id": 0, "cfg": cfg_json::<C>(profile), "init": {}, "kids": [], "nvecs": nvecs, "seed": seed})).unwrap();
            w.flush().unwrap();
            writeln!(marks, "INIT").unwrap();
            marks.flush().unwrap();
            std::process::exit(4);
        }
    };
    let (icbs, _) = reg::take_cbs();
    let (_, _, _, _, init_mem) = cbs_json(&icbs);
    let mut init = world.observe();
    init["mem"] = json!(init_mem);
    writeln!(w, "{}", json!({"id": 0, "cfg": cfg_json::<C>(profile), "init": init, "kids": [2], "nvecs": nvecs, "seed": seed})).unwrap();
    let (fixed, fcap, _) = C::backend();
    let names = &VNAMES[..nvecs];
    let sink_of = |rng: &mut Rng, world: &World<C>, x: usize, allow_keep: bool| -> Value {
        let others: Vec<usize> = (0..nvecs).filter(|w| *w != x && world.vs[*w].h.is_none() && world.vs[*w].kept.is_empty()).collect();
        let r = rng.below(100);
        if r < 35 { json!({"k": "drop", "to": "", "i": 0}) }
        else if r < 50 && world.ext.len() < 32 { json!({"k": "ext", "to": "", "i": 0}) }
        else if r < 75 && !others.is_empty() {
            let wv = others[rng.below(others.len())];
            let wl = world.v(wv).len();
            if fixed && wl as i64 >= fcap { json!({"k": "drop", "to": "", "i": 0}) }
            else if rng.chance(50) { json!({"k": "push", "to": VNAMES[wv], "i": 0}) } else { json!({"k": "insert", "to": VNAMES[wv], "i": rng.below(wl + 1)}) }
        }
        else if r < 78 { json!({"k": "forget", "to": "", "i": 0}) }
        else if r < 84 && allow_keep && world.vs[x].kept.len() < 3 { json!({"k": "keep", "to": "", "i": 0}) }
        else { json!({"k": "drop", "to": "", "i": 0}) }
    };
    for step in 0..steps {
        let x = rng.below(nvecs);
        let hk: u8 = match &world.vs[x].h { None => if world.vs[x].kept.is_empty() { 0 } else { 3 }, Some(Handle::Pop(_)) | Some(Handle::Remove(_)) | Some(Handle::SwapRemove(_)) => 1,
                                        Some(Handle::Iters(_)) => 4, Some(_) => 2 };
        let v = names[x];
        let act: Value = match hk {
            1 => if rng.chance(15) { json!({"op": "hmutate", "v": v, "via": rng.pick(&["downcast_mut", "bytes_mut"])}) }
                 else { json!({"op": "consume", "v": v, "sink": sink_of(&mut rng, &world, x, false)}) },
            2 => {
                let typed = matches!(world.vs[x].h, Some(Handle::Typed(_)));
                if !world.vs[x].kept.is_empty() && rng.chance(60) {
                    json!({"op": "item_consume", "v": v, "k": 1 + rng.below(world.vs[x].kept.len()), "sink": sink_of(&mut rng, &world, x, false)})
                } else if rng.chance(70) {
                    let sk = if typed { if rng.chance(50) && world.ext.len() < 32 { json!({"k": "ext", "to": "", "i": 0}) } else { json!({"k": "drop", "to": "", "i": 0}) } }
                             else { sink_of(&mut rng, &world, x, true) };
                    json!({"op": "next", "v": v, "end": rng.pick(&["front", "back"]), "sink": sk})
                } else if !world.vs[x].kept.is_empty() {
                    json!({"op": "item_consume", "v": v, "k": 1, "sink": {"k": "drop", "to": "", "i": 0}})
                } else if rng.chance(4) { json!({"op": "range_forget", "v": v}) } else { json!({"op": "range_drop", "v": v}) }
            }
            3 => json!({"op": "item_consume", "v": v, "k": 1, "sink": {"k": "drop", "to": "", "i": 0}}),
            4 => if rng.chance(70) { json!({"op": "iter_next", "v": v, "k": 1, "end": rng.pick(&["front", "back"])}) } else { json!({"op": "iter_end", "v": v}) },
            _ => {
                let len = world.v(x).len();
                let room = !fixed || (len as i64) < fcap;
                let grow = len < maxlen && room;
                let r = rng.below(100);
                let src = rng.pick(&["wrapper", "raw", "typed"]);
                let gp = if len < 6 { 62 } else if len < maxlen / 2 { 34 } else { 24 };
                if (r < gp && grow) || len == 0 && room {
                    if rng.chance(55) { json!({"op": "push", "v": v, "src": src}) } else { json!({"op": "insert", "v": v, "i": rng.below(len + 1) + (rng.chance(3) as usize) * 2, "src": src}) }
                } else if r < 44 { json!({"op": rng.pick(&["pop_begin", "remove_begin", "swap_remove_begin"]), "v": v, "i": if rng.chance(4) { len + rng.below(2) } else { rng.below(len.max(1)) }}) }
                else if r < 52 { json!({"op": rng.pick(&["tpop", "tremove", "tswap_remove"]), "v": v, "i": rng.below(len.max(1)),
                                        "sink": if rng.chance(50) && world.ext.len() < 32 { json!({"k": "ext", "to": "", "i": 0}) } else { json!({"k": "drop", "to": "", "i": 0}) }}) }
                else if r < 58 { json!({"op": "get", "v": v, "i": if rng.chance(10) { len + rng.below(2) } else { rng.below(len.max(1)) },
                                        "kind": rng.pick(&["get", "get_mut", "tget", "tget_mut", "at", "tat"])}) }
                else if r < 64 && len > 0 { json!({"op": "mutate", "v": v, "i": rng.below(len), "via": rng.pick(&["elem_mut", "bytes_mut", "typed", "slice", "iter_mut", "titer_mut"])}) }
                else if r < 80 {
                    let s0 = rng.below(len + 1);
                    let e0 = s0 + rng.below((len - s0).min(12) + 1);
                    let (s0, e0) = if rng.chance(3) { (e0 + 1, e0) } else if rng.chance(3) { (s0, len + 1) } else { (s0, e0) };
                    let typed = rng.chance(35);
                    if rng.chance(50) {
                        json!({"op": "drain_begin", "v": v, "sk": "inc", "sv": s0, "ek": "exc", "ev": e0, "path": if typed { "typed" } else { "erased" }})
                    } else {
                        let mut n = rng.below(6);
                        if fixed { let removed = if s0 <= e0 && e0 <= len { e0 - s0 } else { 0 }; n = n.min(((fcap as usize).saturating_sub(len - removed)).min(5)); }
                        let ssrc = if typed { "typed" } else { rng.pick(&["wrapper", "raw"]) };
                        json!({"op": "splice_begin", "v": v, "sk": "inc", "sv": s0, "ek": "exc", "ev": e0, "path": if typed { "typed" } else { "erased" }, "n": n, "src": ssrc, "delta": 0})
                    }
                }
                else if r < 84 { json!({"op": "iter_begin", "v": v, "kind": rng.pick(&["iter", "iter_mut", "titer", "titer_mut"])}) }
                else if r < 90 && C::RESIZABLE {
                    let cap = world.v(x).capacity();
                    match rng.below(4) {
                        0 => json!({"op": "reserve", "v": v, "n": rng.below(20), "path": rng.pick(&["erased", "typed"])}),
                        1 => json!({"op": "reserve_exact", "v": v, "n": rng.below(20), "path": rng.pick(&["erased", "typed"])}),
                        2 => json!({"op": "shrink_to_fit", "v": v, "n": 0, "path": rng.pick(&["erased", "typed"])}),
                        _ => json!({"op": "shrink_to", "v": v, "n": rng.below(cap + 3), "path": rng.pick(&["erased", "typed"])}),
                    }
                }
                else if r < 92 && !world.ext.is_empty() { json!({"op": "ext_drop", "v": v}) }
                else if r < 96 {
                    // the rest of the surface, each now and then
                    let others: Vec<usize> = (0..nvecs).filter(|w| *w != x && world.vs[*w].h.is_none() && world.vs[*w].kept.is_empty()).collect();
                    let cap = world.v(x).capacity();
                    match rng.below(9) {
                        0 if len > 0 => {
                            let side = rng.pick(&["first", "second"]);
                            if !others.is_empty() && world.v(others[0]).len() > 0 && rng.chance(40) {
                                let wv = others[rng.below(others.len())];
                                let wl = world.v(wv).len();
                                if wl > 0 { json!({"op": "swap", "v": v, "i": rng.below(len), "with": "elem", "to": VNAMES[wv], "j": rng.below(wl), "side": side}) }
                                else { json!({"op": "get", "v": v, "i": 0, "kind": "get"}) }
                            } else if !world.ext.is_empty() && rng.chance(40) { json!({"op": "swap", "v": v, "i": rng.below(len), "with": "raw", "to": "", "j": 0, "side": side}) }
                            else if world.ext.len() < 32 { json!({"op": "swap", "v": v, "i": rng.below(len), "with": rng.pick(&["wrapper", "typed"]), "to": "", "j": 0, "side": side}) }
                            else { json!({"op": "get", "v": v, "i": 0, "kind": "get"}) }
                        }
                        1 if cap > len && cap < 1_000_000 => json!({"op": "spare_write", "v": v, "k": rng.below((cap - len).min(3) + 1), "via": rng.pick(&["bytes", "typed"])}),
                        2 if C::CLONEABLE && !others.is_empty() && rng.chance(30) => {
                            let wv = others[rng.below(others.len())];
                            if !fixed || len as i64 <= fcap { json!({"op": "clone_vec", "v": v, "to": VNAMES[wv]}) } else { json!({"op": "debug", "v": v}) }
                        }
                        3 if C::CLONEABLE && len > 0 => {
                            let n = rng.below(3);
                            let sink = if others.is_empty() || rng.chance(30) { if world.ext.len() + n <= 32 { json!({"k": "ext", "to": "", "i": 0, "s": 0, "e": 0}) } else { json!({"k": "ext", "to": "", "i": 0, "s": 0, "e": 0}) } }
                                else {
                                    let wv = others[rng.below(others.len())];
                                    let wl = world.v(wv).len();
                                    if fixed && (wl + n) as i64 > fcap { json!({"k": "ext", "to": "", "i": 0, "s": 0, "e": 0}) }
                                    else if rng.chance(50) { json!({"k": "push", "to": VNAMES[wv], "i": 0, "s": 0, "e": 0}) } else { json!({"k": "insert", "to": VNAMES[wv], "i": rng.below(wl + 1), "s": 0, "e": 0}) }
                                };
                            let n = if sink["k"] == "ext" && world.ext.len() + n > 32 { 0 } else { n };
                            json!({"op": "lazy", "v": v, "kind": "elem", "i": rng.below(len), "depth": 1 + rng.below(3), "n": n, "sink": sink})
                        }
                        4 if C::CLONEABLE && len > 0 => json!({"op": "fn_ptrs", "v": v, "i": rng.below(len)}),
                        5 if C::RAWPARTS => json!({"op": "raw_roundtrip", "v": v, "clone": rng.chance(50)}),
                        6 => json!({"op": "ce_probe", "v": v, "via": rng.pick(&["same", "stack", "stackn", "stackn1", "empty", "fence"])}),
                        7 if C::E::SZ == 8 => json!({"op": "push_wrong", "v": v, "src": rng.pick(&["wrapper", "raw"]), "ty": rng.pick(&["X8", "Y8", "Z16"])}),
                        8 if len > 0 => json!({"op": "downcast_q", "v": v, "what": rng.pick(&["vec_ref", "vec_mut", "elem_ref", "elem_mut"]), "i": rng.below(len), "ty": rng.pick(&["real", "X8", "u64", "Z16"])}),
                        _ => json!({"op": "debug", "v": v}),
                    }
                }
                else if r < 98 && len > 0 && rng.chance(30) { json!({"op": "clear", "v": v, "path": rng.pick(&["erased", "typed"])}) }
                else if len > 0 { json!({"op": "get", "v": v, "i": rng.below(len), "kind": "get"}) }
                else { json!({"op": "push", "v": v, "src": src}) }
            }
        };
        writeln!(marks, "{}", step + 1).unwrap();
        marks.flush().unwrap();
        arm_watchdog();
        // fault injection (C06 on long histories): now and then the k-th invocation of user code inside the action panics
        let inject = faultpct > 0 && rng.chance(faultpct);
        let fk = match rng.below(20) { 0..=11 => 1, 12..=16 => 2, _ => 3 };
        if inject { reg::set_countdown(fk); }
        let (o, cbs, ovf) = world.step(&act);
        let fired = inject && reg::countdown() < 0;
        reg::set_countdown(-1);
        let post = world.observe();
        // a fault that fired is part of the action (so that the replay of this history repeats it)
        let mut act = act;
        if fired { act["_fault"] = json!(fk); }
        let mut ev = event_json::<C>((step + 1) as i64, &act, &o, &cbs, ovf, &post, &mut world);
        if fired { ev["fault"] = json!(fk); ev["fired"] = json!(true); }
        let last = step + 1 == steps;
        finish_td::<C>(&mut ev, &mut world, !last);
        ev["kids"] = if last { json!([]) } else { json!([step + 3]) };
        writeln!(w, "{}", ev).unwrap();
    }
    disarm_watchdog();
    w.flush().unwrap();
    writeln!(marks, "FAULTS 0").unwrap();
    writeln!(marks, "DONE {} 0", steps).unwrap();
    marks.flush().unwrap();
}

fn event_json<C: Config>(id: i64, act: &Value, o: &ActOut, cbs: &[reg::Cb], ovf: bool, post: &Value, world: &mut World<C>) -> Value {
    let mut note = o.note.clone();
    note.extend(world.notes.drain(..));
    let (drops, clones, nexts, lens, mem) = cbs_json(cbs);
    json!({
        "id": id, "act": act, "res": o.res,
        "ret": o.ret.iter().map(|p| json!([p.0, p.1])).collect::<Vec<_>>(),
        "hint": [o.hint.0, o.hint.1, o.hint.2], "born": o.born, "note": note,
        "drops": drops, "clones": clones, "nexts": nexts, "lens": lens, "mem": mem, "cbovf": ovf,
        "post": post
    })
}
/// `skip`: the world lives on (a chain of events from one execution); otherwise tear everything down and log it
fn finish_td<C: Config>(ev: &mut Value, world: &mut World<C>, skip: bool) {
    if skip {
        ev["td"] = json!({"skip": true, "drops": [], "live": [], "panic": false, "zst": 0, "mem": [], "nblk": 0});
    } else {
        let (tcbs, tpanic) = world.teardown();
        let live: Vec<u32> = reg::live_ids();
        let (tdrops, _, _, _, tmem) = cbs_json(&tcbs);
        ev["td"] = json!({"skip": false, "drops": tdrops, "live": live, "panic": tpanic, "zst": reg::zst_live(),
                          "mem": tmem, "nblk": fence::live_blocks()});
    }
}

/// C11: capacity formula of Stack<SIZE> and the build rule of StackN<N, SIZE> on a grid around multiples of the element size
fn buildgrid() {
    use std::panic::{catch_unwind, AssertUnwindSafe};
    macro_rules! stack { ($e:ty, $($size:expr),*) => { $( {
        let r = catch_unwind(AssertUnwindSafe(|| { let v: any_vec::AnyVec<dyn TNone, Stack<$size>> = any_vec::AnyVec::new::<$e>(); v.capacity() }));
        println!("{}", json!({"kind": "stack", "size": $size, "n": 0, "esz": <$e as Elem>::SZ, "res": if r.is_ok() { "ok" } else { "panic" },
                              "cap": r.map(|c| if c as u128 > 1_000_000_000 { 1_000_000_000i64 } else { c as i64 }).unwrap_or(-1)}));
    } )* } }
    macro_rules! stackn { ($e:ty, $(($n:expr, $size:expr)),*) => { $( {
        let r = catch_unwind(AssertUnwindSafe(|| { let v: any_vec::AnyVec<dyn TNone, StackN<$n, $size>> = any_vec::AnyVec::new::<$e>(); v.capacity() }));
        println!("{}", json!({"kind": "stackn", "size": $size, "n": $n, "esz": <$e as Elem>::SZ, "res": if r.is_ok() { "ok" } else { "panic" },
                              "cap": r.map(|c| c as i64).unwrap_or(-1)}));
    } )* } }
    stack!(E8a8d, 0, 7, 8, 9, 15, 16, 17, 23, 24, 25);
    stack!(E3a1n, 0, 2, 3, 4, 5, 6, 7, 8, 9, 10);
    stack!(E24a8d, 23, 24, 25, 47, 48, 49, 71, 72, 73);
    stack!(E0a1d, 0, 1, 4);
    stackn!(E8a8d, (0, 0), (1, 7), (1, 8), (1, 9), (2, 15), (2, 16), (2, 17), (3, 23), (3, 24), (3, 25));
    stackn!(E3a1n, (1, 2), (1, 3), (1, 4), (2, 5), (2, 6), (2, 7), (3, 8), (3, 9), (3, 10));
    stackn!(E0a1d, (0, 0), (3, 0), (5, 1));
}

fn main() {
    std::panic::set_hook(Box::new(|_| {}));
    if std::env::args().nth(1).as_deref() == Some("buildgrid") { buildgrid(); return; }
    let args: Vec<String> = std::env::args().collect();
    let mut cfg = String::new();
    let mut cases = String::new();
    let mut out = String::new();
    let mut shard = (0usize, 1usize);
    let mut nvecs = 2usize;
    let mut skip: Vec<i64> = vec![];
    let mut faults = false;
    let mut seed = 1u64;
    let mut steps = 1000usize;
    let mut maxlen = 64usize;
    let mut faultpct = 0usize;
    let mut i = 2;
    while i < args.len() {
        match args[i].as_str() {
            "--config" => { cfg = args[i + 1].clone(); i += 2; }
            "--cases" => { cases = args[i + 1].clone(); i += 2; }
            "--out" => { out = args[i + 1].clone(); i += 2; }
            "--faults" => { faults = true; i += 1; }
            "--seed" => { seed = args[i + 1].parse().unwrap(); i += 2; }
            "--steps" => { steps = args[i + 1].parse().unwrap(); i += 2; }
            "--maxlen" => { maxlen = args[i + 1].parse().unwrap(); i += 2; }
            "--faultpct" => { faultpct = args[i + 1].parse().unwrap(); i += 2; }
            "--skip" => { skip = args[i + 1].split(',').filter(|x| !x.is_empty()).map(|x| x.parse().unwrap()).collect(); i += 2; }
            "--nvecs" => { nvecs = args[i + 1].parse().unwrap(); i += 2; }
            "--shard" => { let p: Vec<usize> = args[i + 1].split('/').map(|x| x.parse().unwrap()).collect(); shard = (p[0], p[1]); i += 2; }
            x => { eprintln!("unknown arg {}", x); std::process::exit(3); }
        }
    }
    let profile = if cfg!(debug_assertions) { "dev" } else { "release" };
    macro_rules! dispatch {
        ($($c:ident),*) => {
            match (args[1].as_str(), cfg.as_str()) {
                ("list", _) => { $( println!("{}", <$c as Config>::NAME); )* }
                $( ("replay", x) if x == <$c as Config>::NAME => replay::<$c>(&cases, &out, shard, nvecs, profile, &skip, faults), )*
                $( ("random", x) if x == <$c as Config>::NAME => random_run::<$c>(&out, seed, steps, maxlen, nvecs, profile, faultpct), )*
                _ => { eprintln!("unknown command/config"); std::process::exit(3); }
            }
        };
    }
    #[cfg(feature = "alloc")]
    dispatch!(CEmpty8d, CEmpty0c, CHeap8s, CHeap8y, CHeap8sy, CHeap8cs, CHeap8cy, CStack8sy, CHeap8n, CHeap8d, CHeap8c, CHeap3c, CHeap0c, CHeap8css, CStack8c, CHeap3n, CHeap160, CHeap0d, CHeap1n, CHeap2d, CHeap12d, CHeap16d, CHeap24d, CHeap32d, CHeap64n, CHeap160a32, CHeap0n, CFence8d, CFence3n, CFence24d, CFence160, CFence0d, CFenceRaw8c, CFenceOver8d, CFenceOver3c, CStack24x3, CStackN3, CStack8x3m, CStack8x3p, CStack8x2p, CStackN2, CStack16x4, CStack32x4, CStack64x2, CStack0d);
    #[cfg(not(feature = "alloc"))]
    dispatch!(CStack8sy, CEmpty8d, CEmpty0c, CStack8c, CFence8d, CFence3n, CFence24d, CFence160, CFence0d, CFenceRaw8c, CFenceOver8d, CFenceOver3c, CStack24x3, CStackN3, CStack8x3m, CStack8x3p, CStack8x2p, CStackN2, CStack16x4, CStack32x4, CStack64x2, CStack0d);
}
