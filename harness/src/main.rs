mod elem;
mod interp;
mod reg;

use elem::*;
use interp::*;
use serde_json::{json, Value};
use std::io::{BufRead, BufWriter, Write};

macro_rules! config {
    ($name:ident, $label:expr, $tr:ty, $m:ty, $mb:expr, $e:ty, $fixed:expr, $fcap:expr, $backend:expr) => {
        pub struct $name;
        impl Config for $name {
            type Tr = $tr;
            type M = $m;
            type E = $e;
            const NAME: &'static str = $label;
            fn mem_builder() -> Self::M { $mb }
            fn backend() -> (bool, i64, &'static str) { ($fixed, $fcap, $backend) }
        }
    };
}

use any_vec::mem::{Stack, StackN};
use any_vec::traits::{Cloneable, None as TNone};
#[cfg(feature = "alloc")]
use any_vec::mem::Heap;

#[cfg(feature = "alloc")]
config!(CHeap8d, "heap8d", dyn TNone, Heap, Heap, E8a8d, false, 0, "heap");
#[cfg(feature = "alloc")]
config!(CHeap3n, "heap3n", dyn TNone, Heap, Heap, E3a1n, false, 0, "heap");
#[cfg(feature = "alloc")]
config!(CHeap160, "heap160", dyn Cloneable, Heap, Heap, E160a8d, false, 0, "heap");
#[cfg(feature = "alloc")]
config!(CHeap0d, "heap0d", dyn TNone, Heap, Heap, E0a1d, false, 0, "heap");
config!(CStack24x3, "stack24x3", dyn TNone, Stack<72>, Stack::<72>, E24a8d, true, 3, "stack");
config!(CStackN3, "stackn3", dyn Cloneable, StackN<3, 24>, StackN::<3, 24>, E8a8d, true, 3, "stackn");

fn cfg_json<C: Config>(profile: &str) -> Value {
    let (fixed, fcap, backend) = C::backend();
    json!({
        "name": C::NAME, "fixed": fixed, "fcap": fcap, "backend": backend,
        "esz": C::E::SZ, "ealign": C::E::AL, "drop": C::E::DROP, "ids": C::E::SZ != 0,
        "cloneable": C::CLONEABLE, "trackcap": false, "maxu": MAXU, "profile": profile,
        "alloc": cfg!(feature = "alloc"), "elem": C::E::NAME
    })
}

struct Node { id: i64, parent: i64, act: Value }

fn load_cases(path: &str) -> Vec<Node> {
    let f = std::fs::File::open(path).expect("cases file");
    let mut v = vec![];
    for line in std::io::BufReader::new(f).lines() {
        let line = line.unwrap();
        if line.trim().is_empty() { continue; }
        let j: Value = serde_json::from_str(&line).expect("case json");
        v.push(Node { id: j["id"].as_i64().unwrap(), parent: j["parent"].as_i64().unwrap(), act: j["act"].clone() });
    }
    v
}

fn fnv(s: &str) -> u64 {
    // whether a reallocation moved the block is the allocator's business and not reproducible
    let s = s.replace("\"mv\":true", "\"mv\":false");
    let mut h: u64 = 0xcbf29ce484222325;
    for b in s.bytes() { h ^= b as u64; h = h.wrapping_mul(0x100000001b3); }
    h
}

/// Replays the case trie and writes a TLC-ready tree trace: line 1 is the header, line p is the node with
/// position p, `kids` are positions.  `shard = (i, n)`: the nodes of depth < SPLIT_DEPTH are in every shard,
/// deeper nodes belong to the shard their depth-SPLIT_DEPTH ancestor hashes to.
fn replay<C: Config>(cases: &str, out: &str, shard: (usize, usize), nvecs: usize, profile: &str, skip: &[i64]) {
    let nodes = load_cases(cases);
    let mut index = std::collections::HashMap::new();
    for (k, n) in nodes.iter().enumerate() { index.insert(n.id, k); }
    let nn = nodes.len();
    let mut par = vec![usize::MAX; nn];
    let mut skipped = vec![false; nn];
    for k in 0..nn {
        let n = &nodes[k];
        skipped[k] = skip.contains(&n.id);
        if n.parent != 0 {
            let pk = *index.get(&n.parent).expect("parent before child");
            assert!(pk < k, "parent before child");
            par[k] = pk;
            skipped[k] |= skipped[pk];
        }
    }
    // subtree sizes; cut the tree into subtrees of bounded size, spread them over the shards; every ancestor
    // of a cut is "common" (present in every shard)
    let mut size = vec![1usize; nn];
    for k in (0..nn).rev() { if par[k] != usize::MAX { size[par[k]] += size[k]; } }
    let limit = (nn / (shard.1 * 16)).max(1);
    let mut owner = vec![usize::MAX; nn]; // usize::MAX = common
    let mut load = vec![0usize; shard.1];
    for k in 0..nn {
        if par[k] != usize::MAX && owner[par[k]] != usize::MAX { owner[k] = owner[par[k]]; continue; }
        if shard.1 == 1 || size[k] > limit { continue; } // common
        let (best, _) = load.iter().enumerate().min_by_key(|(_, l)| **l).unwrap();
        owner[k] = best;
        load[best] += size[k];
    }
    let mut member = vec![false; nn];
    for k in 0..nn { member[k] = !skipped[k] && (owner[k] == usize::MAX || owner[k] == shard.0); }
    let mut pos = vec![0usize; nn];
    let mut p = 1usize;
    for k in 0..nn { if member[k] { p += 1; pos[k] = p; } }
    let mut kids: Vec<Vec<usize>> = vec![vec![]; nn];
    let mut roots = vec![];
    for k in 0..nn { if member[k] { if par[k] == usize::MAX { roots.push(pos[k]); } else { kids[par[k]].push(pos[k]); } } }

    let f = std::fs::File::create(out).expect("out file");
    let mut w = BufWriter::new(f);
    let marks = std::fs::File::create(format!("{}.run", out)).expect("marker file");
    let mut marks = BufWriter::new(marks);
    reg::reset();
    let mut w0: World<C> = World::new(nvecs);
    let init = w0.observe();
    let _ = w0.teardown();
    writeln!(w, "{}", json!({"id": 0, "cfg": cfg_json::<C>(profile), "init": init, "kids": roots, "nvecs": nvecs})).unwrap();
    let mut postsig = vec![0u64; nn];
    let mut nondet = 0u64;
    let mut nondet_at: Vec<(i64, i64)> = vec![];
    for k in 0..nn {
        if !member[k] { continue; }
        let n = &nodes[k];
        let mut chain = vec![k];
        let mut q = par[k];
        while q != usize::MAX { chain.push(q); q = par[q]; }
        chain.reverse();
        writeln!(marks, "{}", n.id).unwrap();
        marks.flush().unwrap();
        reg::reset();
        let mut world: World<C> = World::new(nvecs);
        let _ = world.observe();
        for &pk in &chain[..chain.len() - 1] {
            let _ = world.step(&nodes[pk].act);
            // determinism of the replay: the state after each prefix action is the state recorded when that
            // action was the judged one
            let obs = world.observe().to_string();
            let sig = fnv(&obs);
            if sig != postsig[pk] { nondet += 1; nondet_at.push((nodes[pk].id, n.id)); }
        }
        world.notes.clear();
        let (o, cbs, ovf) = world.step(&n.act);
        let post = world.observe();
        postsig[k] = fnv(&post.to_string());
        let mut note = o.note.clone();
        note.extend(world.notes.drain(..));
        let (tcbs, tpanic) = world.teardown();
        let live: Vec<u32> = reg::live_ids();
        let (drops, clones, nexts, lens, mem) = cbs_json(&cbs);
        let (tdrops, _, _, _, _) = cbs_json(&tcbs);
        let ev = json!({
            "id": n.id, "kids": kids[k], "act": n.act, "res": o.res,
            "ret": o.ret.iter().map(|p| json!([p.0, p.1])).collect::<Vec<_>>(),
            "hint": [o.hint.0, o.hint.1, o.hint.2], "born": o.born, "note": note,
            "drops": drops, "clones": clones, "nexts": nexts, "lens": lens, "mem": mem, "cbovf": ovf,
            "post": post,
            "td": {"drops": tdrops, "live": live, "panic": tpanic, "zst": reg::zst_live()}
        });
        writeln!(w, "{}", ev).unwrap();
    }
    w.flush().unwrap();
    for (a, b) in nondet_at.iter().take(200) { writeln!(marks, "NONDET {} {}", a, b).unwrap(); }
    writeln!(marks, "DONE {} {}", p - 1, nondet).unwrap();
    marks.flush().unwrap();
}

fn main() {
    std::panic::set_hook(Box::new(|_| {}));
    let args: Vec<String> = std::env::args().collect();
    let mut cfg = String::new();
    let mut cases = String::new();
    let mut out = String::new();
    let mut shard = (0usize, 1usize);
    let mut nvecs = 2usize;
    let mut skip: Vec<i64> = vec![];
    let mut i = 2;
    while i < args.len() {
        match args[i].as_str() {
            "--config" => { cfg = args[i + 1].clone(); i += 2; }
            "--cases" => { cases = args[i + 1].clone(); i += 2; }
            "--out" => { out = args[i + 1].clone(); i += 2; }
            "--skip" => { skip = args[i + 1].split(',').filter(|x| !x.is_empty()).map(|x| x.parse().unwrap()).collect(); i += 2; }
            "--nvecs" => { nvecs = args[i + 1].parse().unwrap(); i += 2; }
            "--shard" => { let p: Vec<usize> = args[i + 1].split('/').map(|x| x.parse().unwrap()).collect(); shard = (p[0], p[1]); i += 2; }
            x => { eprintln!("unknown arg {}", x); std::process::exit(3); }
        }
    }
    let profile = if cfg!(debug_assertions) { "dev" } else { "release" };
    macro_rules! dispatch {
        ($($c:ident),*) => {
            match (args[1].as_str(), cfg.as_str()) {
                ("list", _) => { $( println!("{}", <$c as Config>::NAME); )* }
                $( ("replay", x) if x == <$c as Config>::NAME => replay::<$c>(&cases, &out, shard, nvecs, profile, &skip), )*
                _ => { eprintln!("unknown command/config"); std::process::exit(3); }
            }
        };
    }
    #[cfg(feature = "alloc")]
    dispatch!(CHeap8d, CHeap3n, CHeap160, CHeap0d, CStack24x3, CStackN3);
    #[cfg(not(feature = "alloc"))]
    dispatch!(CStack24x3, CStackN3);
}
