//! Interpreter: executes action lists (as emitted by TLC from MC_AnyVec, or by the random driver)
//! against real `AnyVec`s and writes one ndjson event per judged action.  It makes no judgement of
//! its own about the library's behaviour: it observes and logs; the TLA+ trace specification decides.
#![allow(clippy::type_complexity)]
use crate::elem::{self, Elem};
use crate::fence::{self, HarnessScope, TrackedScope};
use crate::reg::{self, Cb};
use any_vec::any_value::{AnyValue, AnyValueMut, AnyValueRaw, AnyValueSizelessRaw, AnyValueTypeless, AnyValueTypelessMut, AnyValueTypelessRaw, AnyValueWrapper};
use any_vec::element::Element;
use any_vec::mem::MemBuilder;
use any_vec::ops::{Drain, Pop, Remove, Splice, SwapRemove};
use any_vec::traits::Trait;
use any_vec::{AnyVec, IterMut, IterRef, SatisfyTraits};
use serde_json::{json, Value};
use std::any::TypeId;
use std::cell::RefCell;
use std::mem::ManuallyDrop;
use std::ops::Bound;
use std::panic::{catch_unwind, AssertUnwindSafe};
use std::ptr::NonNull;

pub const BIG: i64 = 1_000_000_000;
pub const MAXU: i64 = 1_000_000; // model stand-in for usize::MAX (see VecOps!IntoRange)

pub trait Config: 'static {
    type Tr: ?Sized + Trait;
    type M: MemBuilder + 'static;
    type E: Elem + SatisfyTraits<Self::Tr>;
    const NAME: &'static str;
    fn mem_builder() -> Self::M;
    /// a vector with the same constraints and backend but ANOTHER element type (same size and alignment as the 8-byte element)
    fn new_xvec() -> AnyVec<Self::Tr, Self::M>;
    /// [fixed, fcap (elements; BIG = unbounded), backend name]
    fn backend() -> (bool, i64, &'static str);
    const CLONEABLE: bool = false;
    const RESIZABLE: bool = false;
    const RAWPARTS: bool = false;
    /// the builder logs its own creation / clone / drop (stateful user builder)
    const BUILDER_TRACKED: bool = false;
    fn clone_vec(_v: &AnyVec<Self::Tr, Self::M>) -> Option<AnyVec<Self::Tr, Self::M>> { None }
    /// reserve / reserve_exact / shrink_to_fit / shrink_to, erased or through the typed view; false = not offered by this backend
    fn cap_op(_v: &mut AnyVec<Self::Tr, Self::M>, _op: &str, _n: usize, _typed: bool) -> bool { false }
    fn with_capacity(_n: usize) -> Option<AnyVec<Self::Tr, Self::M>> { None }
    /// clone(), lazy clones, clone_empty probes with cloning: only for constraint sets that include Cloneable
    fn clone_ops(_w: &mut World<Self>, _a: &Value, _out: &mut ActOut) -> bool where Self: Sized { false }
    /// into_raw_parts / RawParts::clone / from_raw_parts (backends whose Mem is MemRawParts)
    fn raw_ops(_w: &mut World<Self>, _a: &Value, _out: &mut ActOut) -> bool where Self: Sized { false }
}

pub type V<C> = AnyVec<<C as Config>::Tr, <C as Config>::M>;
type El<C> = Element<'static, <C as Config>::Tr, <C as Config>::M>;

pub trait DynIt<T> {
    fn nx(&mut self) -> Option<T>;
    fn nb(&mut self) -> Option<T>;
    fn hint(&self) -> (usize, Option<usize>, usize);
}
impl<T, I: DoubleEndedIterator<Item = T> + ExactSizeIterator> DynIt<T> for I {
    fn nx(&mut self) -> Option<T> { self.next() }
    fn nb(&mut self) -> Option<T> { self.next_back() }
    fn hint(&self) -> (usize, Option<usize>, usize) { let (a, b) = self.size_hint(); (a, b, self.len()) }
}

thread_local! {
    /// raw-pointer replacement values that came back from a rejected / dropped replacement iterator
    static RETURNED: RefCell<Vec<Box<dyn std::any::Any>>> = RefCell::new(Vec::new());
}

/// Replacement iterator (user code from the library's point of view).
pub struct Repl<E: Elem> {
    items: Vec<ManuallyDrop<E>>,
    taken: Vec<bool>,
    pos: usize,
    raw: bool,
    /// reported length = true remaining + delta (a lying ExactSizeIterator when delta != 0)
    delta: i64,
}
impl<E: Elem> Repl<E> {
    fn new(items: Vec<E>, raw: bool, delta: i64) -> Self {
        let _h = HarnessScope::new();
        let n = items.len();
        Repl { items: items.into_iter().map(ManuallyDrop::new).collect(), taken: vec![false; n], pos: 0, raw, delta }
    }
    fn remaining(&self) -> usize { self.items.len() - self.pos }
    fn reported(&self) -> usize { (self.remaining() as i64 + self.delta).max(0) as usize }
}
impl<E: Elem> Drop for Repl<E> {
    fn drop(&mut self) {
        for k in 0..self.items.len() {
            if !self.taken[k] {
                self.taken[k] = true;
                let v = unsafe { ManuallyDrop::take(&mut self.items[k]) };
                if self.raw {
                    let _h = HarnessScope::new();
                    RETURNED.with(|r| r.borrow_mut().push(Box::new(v)));
                } else {
                    drop(v);
                }
            }
        }
    }
}
pub struct ReplW<E: Elem>(Repl<E>);
pub struct ReplR<E: Elem>(Repl<E>);
pub struct ReplT<E: Elem>(Repl<E>);
macro_rules! repl_common {
    ($t:ident) => {
        impl<E: Elem> ExactSizeIterator for $t<E> {
            fn len(&self) -> usize { reg::log(Cb::Len); self.0.reported() }
        }
    };
}
impl<E: Elem> Iterator for ReplW<E> {
    type Item = AnyValueWrapper<E>;
    fn next(&mut self) -> Option<Self::Item> {
        reg::log(Cb::Next);
        reg::user_call("next");
        let r = &mut self.0;
        if r.pos == r.items.len() { return None; }
        let k = r.pos;
        r.pos += 1;
        r.taken[k] = true;
        Some(AnyValueWrapper::new(unsafe { ManuallyDrop::take(&mut r.items[k]) }))
    }
    fn size_hint(&self) -> (usize, Option<usize>) { let n = self.0.reported(); (n, Some(n)) }
}
impl<E: Elem> Iterator for ReplT<E> {
    type Item = E;
    fn next(&mut self) -> Option<Self::Item> {
        reg::log(Cb::Next);
        reg::user_call("next");
        let r = &mut self.0;
        if r.pos == r.items.len() { return None; }
        let k = r.pos;
        r.pos += 1;
        r.taken[k] = true;
        Some(unsafe { ManuallyDrop::take(&mut r.items[k]) })
    }
    fn size_hint(&self) -> (usize, Option<usize>) { let n = self.0.reported(); (n, Some(n)) }
}
impl<E: Elem> Iterator for ReplR<E> {
    type Item = AnyValueRaw;
    fn next(&mut self) -> Option<Self::Item> {
        reg::log(Cb::Next);
        reg::user_call("next");
        let r = &mut self.0;
        if r.pos == r.items.len() { return None; }
        let k = r.pos;
        r.pos += 1;
        r.taken[k] = true; // ownership passes with the pointer (documented contract of AnyValueRaw)
        let p = &*r.items[k] as *const E as *mut u8;
        Some(unsafe { AnyValueRaw::new(NonNull::new_unchecked(p), E::SZ, TypeId::of::<E>()) })
    }
    fn size_hint(&self) -> (usize, Option<usize>) { let n = self.0.reported(); (n, Some(n)) }
}
repl_common!(ReplW);
repl_common!(ReplR);
repl_common!(ReplT);

pub enum ItK<C: Config> {
    Ref(IterRef<'static, C::Tr, C::M>),
    Mut(IterMut<'static, C::Tr, C::M>),
    TRef(std::slice::Iter<'static, C::E>),
    TMut(std::slice::IterMut<'static, C::E>),
}

pub enum Handle<C: Config> {
    Pop(Pop<'static, C::Tr, C::M>),
    Remove(Remove<'static, C::Tr, C::M>),
    SwapRemove(SwapRemove<'static, C::Tr, C::M>),
    Drain(Drain<'static, C::Tr, C::M>),
    SpliceW(Splice<'static, C::Tr, C::M, ReplW<C::E>>),
    SpliceR(Splice<'static, C::Tr, C::M, ReplR<C::E>>),
    Typed(Box<dyn DynIt<C::E>>),
    Iters(Vec<ItK<C>>),
}

pub struct VSlot<C: Config> {
    pub ptr: *mut V<C>,
    pub h: Option<Handle<C>>,
    pub kept: Vec<El<C>>,
    pub last_base: usize,
    pub probed: u8,
}

pub struct World<C: Config> {
    pub vs: Vec<VSlot<C>>,
    pub ext: Vec<C::E>,
    pub notes: Vec<String>,
}

pub struct ActOut {
    pub res: &'static str,
    pub ret: Vec<(i64, i64)>,
    pub hint: (i64, i64, i64),
    pub born: Vec<u32>,
    pub note: Vec<String>,
}
impl ActOut {
    fn new() -> Self { ActOut { res: "ok", ret: Vec::with_capacity(8), hint: (-1, -1, -1), born: Vec::with_capacity(8), note: Vec::with_capacity(4) } }
}

fn vidx(name: &str) -> usize {
    match name { "a" => 0, "b" => 1, "c" => 2, _ => panic!("driver: bad vector name {}", name) }
}
pub const VNAMES: [&str; 3] = ["a", "b", "c"];

fn usz(v: &Value, k: &str) -> usize { v[k].as_i64().unwrap_or_else(|| panic!("driver: missing int field {}", k)) as usize }
fn st<'a>(v: &'a Value, k: &str) -> &'a str { v[k].as_str().unwrap_or_else(|| panic!("driver: missing str field {}", k)) }
fn bound_val(x: i64) -> usize {
    if x >= MAXU - 8 { usize::MAX - ((MAXU - x) as usize) } else { x as usize }
}
fn bounds(a: &Value) -> (Bound<usize>, Bound<usize>) {
    let sv = bound_val(a["sv"].as_i64().unwrap());
    let ev = bound_val(a["ev"].as_i64().unwrap());
    let s = match st(a, "sk") { "inc" => Bound::Included(sv), "exc" => Bound::Excluded(sv), _ => Bound::Unbounded };
    let e = match st(a, "ek") { "inc" => Bound::Included(ev), "exc" => Bound::Excluded(ev), _ => Bound::Unbounded };
    (s, e)
}
/// call `$f` with the native range type for the bound pair where one exists (every RangeBounds form)
macro_rules! with_range {
    ($b:expr, $r:ident => $call:expr) => {{
        match $b {
            (Bound::Included(s), Bound::Excluded(e)) => { let $r = s..e; $call }
            (Bound::Included(s), Bound::Included(e)) => { let $r = s..=e; $call }
            (Bound::Unbounded, Bound::Excluded(e)) => { let $r = ..e; $call }
            (Bound::Unbounded, Bound::Included(e)) => { let $r = ..=e; $call }
            (Bound::Included(s), Bound::Unbounded) => { let $r = s..; $call }
            (Bound::Unbounded, Bound::Unbounded) => { let $r = ..; $call }
            other => { let $r = other; $call }
        }
    }};
}

fn clampi(x: usize) -> i64 { if x as u128 > BIG as u128 { BIG } else { x as i64 } }

impl<C: Config> World<C> {
    pub fn new(nvecs: usize) -> Self {
        let mut vs = Vec::new();
        for _ in 0..nvecs {
            let nv: V<C> = { let _t = TrackedScope::new(); AnyVec::new_in::<C::E>(C::mem_builder()) };
            vs.push(VSlot { ptr: vbox_new(nv), h: None, kept: Vec::with_capacity(16), last_base: 0, probed: 0 });
        }
        let mut w = World { vs, ext: Vec::with_capacity(64), notes: Vec::new() };
        for i in 0..w.vs.len() { w.vs[i].last_base = w.base(i); }
        w
    }
    #[inline]
    pub fn v(&self, i: usize) -> &'static mut V<C> { let p: *mut V<C> = self.vs[i].ptr; unsafe { &mut *p } }
    fn base(&self, i: usize) -> usize {
        if self.vs[i].ptr.is_null() { return 0; }
        let v: &V<C> = unsafe { &*self.vs[i].ptr };
        v.downcast_ref::<C::E>().map(|t| t.as_ptr() as usize).unwrap_or(0)
    }
    fn busy(&self, i: usize) -> bool { self.vs[i].h.is_some() || !self.vs[i].kept.is_empty() }

    fn dec(b: &[u8]) -> (i64, i64) { elem::decode(b) }

    pub fn observe(&mut self) -> Value {
        let mut o = serde_json::Map::new();
        for i in 0..self.vs.len() {
            let alive = !self.vs[i].ptr.is_null();
            let mut held: Vec<Value> = vec![];
            let mut hint = (-1i64, -1i64, -1i64);
            let mut hk = "none";
            if let Some(h) = &self.vs[i].h {
                match h {
                    Handle::Pop(t) => { hk = "tmp"; held.push(json!(Self::tmp_obs(t))); }
                    Handle::Remove(t) => { hk = "tmp"; held.push(json!(Self::tmp_obs(t))); }
                    Handle::SwapRemove(t) => { hk = "tmp"; held.push(json!(Self::tmp_obs(t))); }
                    Handle::Drain(d) => { hk = "range"; hint = hint3(d.size_hint(), d.len()); }
                    Handle::SpliceW(d) => { hk = "range"; hint = hint3(d.size_hint(), d.len()); }
                    Handle::SpliceR(d) => { hk = "range"; hint = hint3(d.size_hint(), d.len()); }
                    Handle::Typed(d) => { hk = "range"; let (a, b, c) = d.hint(); hint = hint3((a, b), c); }
                    Handle::Iters(_) => { hk = "iter"; }
                }
            } else if !self.vs[i].kept.is_empty() { hk = "items"; }
            let kept: Vec<Value> = self.vs[i].kept.iter().map(|e| { let d = Self::dec(e.as_bytes()); json!([d.0, d.1]) }).collect();
            let excl = self.busy(i) && hk != "iter";
            let (len, cap, el, al, mv, vw);
            let mut blk = (0i64, 0i64, 0i64);
            if alive && !excl {
                let v: &V<C> = unsafe { &*self.vs[i].ptr };
                len = clampi(v.len());
                cap = clampi(v.capacity());
                let t = v.downcast_ref::<C::E>().expect("driver: element type");
                let e1: Vec<(i64, i64)> = t.as_slice().iter().map(|e| e.decode_self()).collect();
                let bytes = v.as_bytes();
                let e2: Vec<(i64, i64)> = if C::E::SZ == 0 { (0..v.len()).map(|_| (0, 0)).collect() }
                      else { bytes.chunks(C::E::SZ).map(Self::dec).collect() };
                let e3: Vec<(i64, i64)> = v.iter().map(|e| Self::dec(e.as_bytes())).collect();
                // the three read views (typed slice, byte view, erased iterator) are logged as one when they agree
                // ... and so must the unchecked typed view, the typed view's own len / capacity / is_empty and both base pointers
                let tu = unsafe { v.downcast_ref_unchecked::<C::E>() };
                let e4_ok = tu.as_slice().len() == e1.len() && tu.as_slice().iter().zip(e1.iter()).all(|(x, y)| x.decode_self() == *y);
                let meta_ok = t.len() == v.len() && t.capacity() == v.capacity() && t.is_empty() == v.is_empty() && v.is_empty() == (v.len() == 0)
                    && tu.as_ptr() == t.as_ptr() && v.element_typeid() == TypeId::of::<C::E>() && v.element_layout() == std::alloc::Layout::new::<C::E>()
                    && v.element_drop().is_some() == std::mem::needs_drop::<C::E>();
                let vw0 = e1 == e2 && e1 == e3 && bytes.len() == v.len() * C::E::SZ && e4_ok && meta_ok;
                if !vw0 { self.notes.push(format!("views:{}:{:?}|{:?}|{:?}", VNAMES[i], e1, e2, e3)); }
                el = e1.iter().map(|d| json!([d.0, d.1])).collect::<Vec<_>>();
                let base = t.as_ptr() as usize;
                al = base % C::E::AL == 0 && (bytes.as_ptr() as usize == base || v.len() == 0 || C::E::SZ == 0);
                mv = base != self.vs[i].last_base;
                self.vs[i].last_base = base;
                let (l, b, a) = fence::lookup(base);
                blk = (l as i64, clampi(b), a as i64);
                // the MUTABLE views cover exactly the same elements (only when nothing borrows the vector)
                let n = v.len();
                let bytes_at = bytes.as_ptr() as usize;
                let mut mut_ok = true;
                if !self.busy(i) {
                    let vm: &mut V<C> = unsafe { &mut *self.vs[i].ptr };
                    { let bm = vm.as_bytes_mut(); mut_ok &= bm.len() == n * C::E::SZ && bm.as_ptr() as usize == bytes_at; }
                    { let mut tm = vm.downcast_mut::<C::E>().expect("driver: element type"); let sm = tm.as_mut_slice(); mut_ok &= sm.len() == n && sm.as_ptr() as usize == base; }
                    { mut_ok &= vm.iter_mut().len() == n; }
                    { let mut tm = vm.downcast_mut::<C::E>().expect("driver: element type"); mut_ok &= tm.iter_mut().len() == n; }
                    if !mut_ok { self.notes.push(format!("mutviews:{}", VNAMES[i])); }
                }
                vw = vw0 && mut_ok;
            } else {
                len = -1; cap = -1; el = vec![]; al = true; mv = false; vw = true;
            }
            o.insert(VNAMES[i].to_string(), json!({
                "hk": hk, "len": len, "cap": cap, "el": el, "al": al, "mv": mv, "vw": vw, "blk": [blk.0, blk.1, blk.2],
                "held": held, "kept": kept, "hint": [hint.0, hint.1, hint.2]
            }));
        }
        let ext: Vec<Value> = self.ext.iter().map(|e| { let d = e.decode_self(); json!([d.0, d.1]) }).collect();
        o.insert("ext".to_string(), json!(ext));
        o.insert("nblk".to_string(), json!(fence::live_blocks()));
        o.insert("canary".to_string(), json!(fence::canaries_ok() && !fence::table_full()));
        Value::Object(o)
    }

    fn tmp_obs<T: AnyValue>(t: &T) -> Vec<i64> {
        let d = Self::dec(t.as_bytes());
        let ty_ok = t.value_typeid() == TypeId::of::<C::E>() && t.size() == C::E::SZ;
        vec![d.0, d.1, ty_ok as i64]
    }

    fn mk(&self, out: &mut ActOut) -> C::E {
        let id = if C::E::SZ == 0 { 0 } else { reg::fresh_id() };
        out.born.push(id);
        C::E::make(id, 0)
    }

    /// give a value to a sink; `item` variants differ only in how the value is held
    fn sink_tmp<T: AnyValue + 'static>(&mut self, h: T, sink: &Value, out: &mut ActOut) {
        match st(sink, "k") {
            "drop" => drop(h),
            "ext" => { let v = h.downcast::<C::E>().expect("driver: downcast of handle failed"); self.ext.push(v); }
            "forget" => std::mem::forget(h),
            "push" => { let w = vidx(st(sink, "to")); self.v(w).push(h); }
            "insert" => { let w = vidx(st(sink, "to")); self.v(w).insert(usz(sink, "i"), h); }
            k => panic!("driver: bad sink {}", k),
        }
        let _ = out;
    }

    fn exec_inner(&mut self, a: &Value, out: &mut ActOut) {
        let op = st(a, "op");
        let x = if a.get("v").is_some() { vidx(st(a, "v")) } else { 0 };
        match op {
            "push" => {
                let val = self.mk(out);
                match st(a, "src") {
                    "wrapper" => self.v(x).push(AnyValueWrapper::new(val)),
                    "typed" => self.v(x).downcast_mut::<C::E>().expect("driver: type").push(val),
                    "raw" => self.with_raw(val, |w, raw| w.v(x).push(raw)),
                    // the *_unchecked entry points with values that do not know their type (resp. size)
                    "typeless" => self.with_raw_ptr(val, |w, p| unsafe { w.v(x).push_unchecked(AnyValueTypelessRaw::new(p, C::E::SZ)) }),
                    "sizeless" => self.with_raw_ptr(val, |w, p| unsafe { w.v(x).push_unchecked(AnyValueSizelessRaw::new(p)) }),
                    s => panic!("driver: bad src {}", s),
                }
            }
            "insert" => {
                let val = self.mk(out);
                let i = usz(a, "i");
                match st(a, "src") {
                    "wrapper" => self.v(x).insert(i, AnyValueWrapper::new(val)),
                    "typed" => self.v(x).downcast_mut::<C::E>().expect("driver: type").insert(i, val),
                    "raw" => self.with_raw(val, |w, raw| w.v(x).insert(i, raw)),
                    "typeless" => self.with_raw_ptr(val, |w, p| unsafe { w.v(x).insert_unchecked(i, AnyValueTypelessRaw::new(p, C::E::SZ)) }),
                    "sizeless" => self.with_raw_ptr(val, |w, p| unsafe { w.v(x).insert_unchecked(i, AnyValueSizelessRaw::new(p)) }),
                    s => panic!("driver: bad src {}", s),
                }
            }
            "pop_begin" => match self.v(x).pop() {
                None => out.res = "none",
                Some(h) => { out.ret.push(pair(Self::dec(h.as_bytes()))); self.vs[x].h = Some(Handle::Pop(h)); }
            },
            "remove_begin" => {
                let h = self.v(x).remove(usz(a, "i"));
                out.ret.push(pair(Self::dec(h.as_bytes())));
                self.vs[x].h = Some(Handle::Remove(h));
            }
            "swap_remove_begin" => {
                let h = self.v(x).swap_remove(usz(a, "i"));
                out.ret.push(pair(Self::dec(h.as_bytes())));
                self.vs[x].h = Some(Handle::SwapRemove(h));
            }
            "consume" => {
                let h = self.vs[x].h.take().expect("driver: no handle");
                let sink = &a["sink"];
                match h {
                    Handle::Pop(t) => { if st(sink, "k") != "forget" { out.ret.push(pair(Self::dec(t.as_bytes()))); } self.sink_tmp(t, sink, out) }
                    Handle::Remove(t) => { if st(sink, "k") != "forget" { out.ret.push(pair(Self::dec(t.as_bytes()))); } self.sink_tmp(t, sink, out) }
                    Handle::SwapRemove(t) => { if st(sink, "k") != "forget" { out.ret.push(pair(Self::dec(t.as_bytes()))); } self.sink_tmp(t, sink, out) }
                    _ => panic!("driver: consume on non-tmp handle"),
                }
            }
            "hmutate" => {
                let via = st(a, "via");
                macro_rules! hm { ($t:expr) => {{
                    if via == "downcast_mut" { $t.downcast_mut::<C::E>().expect("driver: type").toggle(); }
                    else { elem::toggle_bytes($t.as_bytes_mut()); }
                    out.ret.push(pair(Self::dec($t.as_bytes())));
                }}}
                match self.vs[x].h.as_mut().expect("driver: no handle") {
                    Handle::Pop(t) => hm!(t),
                    Handle::Remove(t) => hm!(t),
                    Handle::SwapRemove(t) => hm!(t),
                    _ => panic!("driver: hmutate on non-tmp handle"),
                }
            }
            "tpop" | "tremove" | "tswap_remove" => {
                let mut t = self.v(x).downcast_mut::<C::E>().expect("driver: type");
                let val = match op {
                    "tpop" => t.pop(),
                    "tremove" => Some(t.remove(usz(a, "i"))),
                    _ => Some(t.swap_remove(usz(a, "i"))),
                };
                match val {
                    None => out.res = "none",
                    Some(v) => {
                        out.ret.push(pair(v.decode_self()));
                        match st(&a["sink"], "k") { "drop" => drop(v), "ext" => self.ext.push(v), k => panic!("driver: bad typed sink {}", k) }
                    }
                }
            }
            "clear" => {
                if st(a, "path") == "typed" { self.v(x).downcast_mut::<C::E>().expect("driver: type").clear() } else { self.v(x).clear() }
            }
            "get" => {
                let i = usz(a, "i");
                let v = self.v(x);
                let r: Option<(i64, i64)> = match st(a, "kind") {
                    "get" => v.get(i).map(|e| { let c = e.clone(); Self::elem_obs(&e, out); Self::elem_obs(&c, out) }),
                    "at" => Some(Self::elem_obs(&v.at(i), out)),
                    "get_mut" => v.get_mut(i).map(|e| Self::elem_obs(&e, out)),
                    "at_mut" => Some(Self::elem_obs(&v.at_mut(i), out)),
                    "tget" => v.downcast_ref::<C::E>().expect("driver: type").get(i).map(|e| e.decode_self()),
                    "tat" => Some(v.downcast_ref::<C::E>().expect("driver: type").at(i).decode_self()),
                    "tget_mut" => v.downcast_mut::<C::E>().expect("driver: type").get_mut(i).map(|e| e.decode_self()),
                    "tat_mut" => Some(v.downcast_mut::<C::E>().expect("driver: type").at_mut(i).decode_self()),
                    // the *_unchecked accessors under their documented precondition (index in range: the driver checks it itself)
                    "get_unchecked" | "get_unchecked_mut" | "tget_unchecked" | "tget_unchecked_mut" if i >= v.len() => None,
                    "get_unchecked" => Some(Self::elem_obs(&unsafe { v.get_unchecked(i) }, out)),
                    "get_unchecked_mut" => Some(Self::elem_obs(&unsafe { v.get_unchecked_mut(i) }, out)),
                    "tget_unchecked" => Some(unsafe { v.downcast_ref::<C::E>().expect("driver: type").get_unchecked(i) }.decode_self()),
                    "tget_unchecked_mut" => Some(unsafe { v.downcast_mut::<C::E>().expect("driver: type").get_unchecked_mut(i) }.decode_self()),
                    k => panic!("driver: bad get kind {}", k),
                };
                match r { None => out.res = "none", Some(d) => out.ret.push(pair(d)) }
            }
            "mutate" => {
                let i = usz(a, "i");
                let v = self.v(x);
                if i >= v.len() { out.res = "none"; return; }
                match st(a, "via") {
                    "elem_mut" => v.get_mut(i).unwrap().downcast_mut::<C::E>().expect("driver: type").toggle(),
                    "bytes_mut" => { let sz = C::E::SZ; elem::toggle_bytes(&mut v.as_bytes_mut()[i * sz..(i + 1) * sz]); }
                    "typed" => v.downcast_mut::<C::E>().expect("driver: type").at_mut(i).toggle(),
                    "slice" => v.downcast_mut::<C::E>().expect("driver: type").as_mut_slice()[i].toggle(),
                    "iter_mut" => v.iter_mut().nth(i).unwrap().downcast_mut::<C::E>().expect("driver: type").toggle(),
                    "titer_mut" => v.downcast_mut::<C::E>().expect("driver: type").iter_mut().nth(i).unwrap().toggle(),
                    k => panic!("driver: bad mutate via {}", k),
                }
                let d = self.v(x).downcast_ref::<C::E>().unwrap().as_slice()[i].decode_self();
                out.ret.push(pair(d));
            }
            "ext_drop" => { let v = self.ext.pop().expect("driver: ext empty"); drop(v); }
            "debug" => {
                // Debug of the erased vector reports its length (and type id)
                let txt = { let _h = HarnessScope::new(); format!("{:?}", self.v(x)) };
                let n: i64 = txt.split("len: ").nth(1).and_then(|t| t.trim_end_matches(|c: char| !c.is_ascii_digit()).split(|c: char| !c.is_ascii_digit()).next())
                    .and_then(|d| d.parse().ok()).unwrap_or(-1);
                out.ret.push((n, 0));
                let _h = HarnessScope::new();
                drop(txt);
            }
            "drain_begin" => {
                let b = bounds(a);
                if st(a, "path") == "typed" {
                    let mut t = self.v(x).downcast_mut::<C::E>().expect("driver: type");
                    let it: Box<dyn DynIt<C::E>> = with_range!(b, r => { let d = t.drain(r); let _h = HarnessScope::new(); Box::new(d) });
                    self.vs[x].h = Some(Handle::Typed(it));
                } else {
                    let v = self.v(x);
                    let d = with_range!(b, r => v.drain(r));
                    self.vs[x].h = Some(Handle::Drain(d));
                }
            }
            "splice_begin" => {
                let b = bounds(a);
                let n = usz(a, "n");
                let delta = a.get("delta").and_then(|d| d.as_i64()).unwrap_or(0);
                let items: Vec<C::E> = { let _h = HarnessScope::new(); (0..n).map(|_| self.mk(out)).collect() };
                match st(a, "src") {
                    "typed" => {
                        let mut t = self.v(x).downcast_mut::<C::E>().expect("driver: type");
                        let rp = ReplT(Repl::new(items, false, delta));
                        let it: Box<dyn DynIt<C::E>> = with_range!(b, r => { let d = t.splice(r, rp); let _h = HarnessScope::new(); Box::new(d) });
                        self.vs[x].h = Some(Handle::Typed(it));
                    }
                    "wrapper" => {
                        let v = self.v(x);
                        let rp = ReplW(Repl::new(items, false, delta));
                        let d = with_range!(b, r => v.splice(r, rp));
                        self.vs[x].h = Some(Handle::SpliceW(d));
                    }
                    "raw" => {
                        let v = self.v(x);
                        let rp = ReplR(Repl::new(items, true, delta));
                        let d = with_range!(b, r => v.splice(r, rp));
                        self.vs[x].h = Some(Handle::SpliceR(d));
                    }
                    s => panic!("driver: bad splice src {}", s),
                }
            }
            "next" => {
                let front = st(a, "end") == "front";
                let sink = { let _h = HarnessScope::new(); a["sink"].clone() };
                let mut h = self.vs[x].h.take().expect("driver: no handle");
                enum It<C: Config> { E(Option<El<C>>), T(Option<C::E>) }
                let item: It<C> = match &mut h {
                    Handle::Drain(d) => It::E(if front { d.next() } else { d.next_back() }),
                    Handle::SpliceW(d) => It::E(if front { d.next() } else { d.next_back() }),
                    Handle::SpliceR(d) => It::E(if front { d.next() } else { d.next_back() }),
                    Handle::Typed(d) => It::T(if front { d.nx() } else { d.nb() }),
                    _ => panic!("driver: next on non-range handle"),
                };
                out.hint = match &h {
                    Handle::Drain(d) => hint3(d.size_hint(), d.len()),
                    Handle::SpliceW(d) => hint3(d.size_hint(), d.len()),
                    Handle::SpliceR(d) => hint3(d.size_hint(), d.len()),
                    Handle::Typed(d) => { let (a, b, c) = d.hint(); hint3((a, b), c) }
                    _ => unreachable!(),
                };
                self.vs[x].h = Some(h);
                match item {
                    It::E(None) | It::T(None) => out.res = "none",
                    It::E(Some(e)) => {
                        out.ret.push(pair(Self::dec(e.as_bytes())));
                        if st(&sink, "k") == "keep" { self.vs[x].kept.push(e); } else { self.sink_tmp(e, &sink, out); }
                    }
                    It::T(Some(v)) => {
                        out.ret.push(pair(v.decode_self()));
                        match st(&sink, "k") { "drop" => drop(v), "ext" => self.ext.push(v), k => panic!("driver: bad typed sink {}", k) }
                    }
                }
            }
            "item_consume" => {
                let k = usz(a, "k") - 1;
                let e = self.vs[x].kept.remove(k);
                out.ret.push(pair(Self::dec(e.as_bytes())));
                self.sink_tmp(e, &a["sink"], out);
            }
            "range_drop" => { let h = self.vs[x].h.take().expect("driver: no handle"); drop(h); }
            "range_forget" => { let h = self.vs[x].h.take().expect("driver: no handle"); std::mem::forget(h); }
            "iter_begin" => {
                let v = self.v(x);
                let it = match st(a, "kind") {
                    "iter" => ItK::Ref(v.iter()),
                    "iter_mut" => ItK::Mut(v.iter_mut()),
                    "titer" => ItK::TRef(v.downcast_ref::<C::E>().expect("driver: type").iter()),
                    "titer_mut" => ItK::TMut(v.downcast_mut::<C::E>().expect("driver: type").iter_mut()),
                    // the IntoIterator impls of &AnyVec, &mut AnyVec, AnyVecRef, AnyVecMut
                    "into_ref" => { let r: &'static V<C> = v; ItK::Ref(r.into_iter()) }
                    "into_mut" => ItK::Mut(v.into_iter()),
                    "tinto_ref" => ItK::TRef(v.downcast_ref::<C::E>().expect("driver: type").into_iter()),
                    "tinto_mut" => ItK::TMut(v.downcast_mut::<C::E>().expect("driver: type").into_iter()),
                    k => panic!("driver: bad iter kind {}", k),
                };
                out.hint = Self::it_hint(&it);
                let _h = HarnessScope::new();
                self.vs[x].h = Some(Handle::Iters(vec![it]));
            }
            "iter_next" => {
                let k = usz(a, "k") - 1;
                let front = st(a, "end") == "front";
                let its = match self.vs[x].h.as_mut() { Some(Handle::Iters(v)) => v, _ => panic!("driver: no iterators") };
                let r: Option<(i64, i64)> = match &mut its[k] {
                    ItK::Ref(i) => (if front { i.next() } else { i.next_back() }).map(|e| Self::elem_obs(&e, out)),
                    ItK::Mut(i) => (if front { i.next() } else { i.next_back() }).map(|e| Self::elem_obs(&e, out)),
                    ItK::TRef(i) => (if front { i.next() } else { i.next_back() }).map(|e| e.decode_self()),
                    ItK::TMut(i) => (if front { i.next() } else { i.next_back() }).map(|e| e.decode_self()),
                };
                out.hint = Self::it_hint(&its[k]);
                match r { None => out.res = "none", Some(d) => out.ret.push(pair(d)) }
            }
            "iter_clone" => {
                let k = usz(a, "k") - 1;
                let its = match self.vs[x].h.as_mut() { Some(Handle::Iters(v)) => v, _ => panic!("driver: no iterators") };
                let c = match &its[k] {
                    ItK::Ref(i) => ItK::Ref(i.clone()),
                    ItK::TRef(i) => ItK::TRef(i.clone()),
                    _ => panic!("driver: clone of exclusive iterator"),
                };
                out.hint = Self::it_hint(&c);
                let _h = HarnessScope::new();
                its.push(c);
            }
            "iter_end" => { self.vs[x].h = None; }
            "reserve" | "reserve_exact" | "shrink_to_fit" | "shrink_to" => {
                let n = bound_val(a["n"].as_i64().unwrap_or(0));
                if !C::cap_op(self.v(x), op, n, st(a, "path") == "typed") { panic!("driver: capacity operations not offered by this backend"); }
            }
            "clone_vec" | "lazy" | "fn_ptrs" => {
                if !C::clone_ops(self, a, out) { panic!("driver: clone operations need a Cloneable constraint set"); }
            }
            "ce_probe" => {
                if !C::clone_ops(self, a, out) {
                    let src: &V<C> = self.v(x);
                    match st(a, "via") {
                        "same" => ce_probe_basic::<C, C::M>(src, src.clone_empty(), out, { let (f, c, _) = C::backend(); if f { c.min(2) } else { -1 } }),
                        "stack" => ce_probe_basic::<C, any_vec::mem::Stack<512>>(src, src.clone_empty_in(any_vec::mem::Stack::<512>), out, -1),
                        "stackn" => ce_probe_basic::<C, any_vec::mem::StackN<3, 512>>(src, src.clone_empty_in(any_vec::mem::StackN::<3, 512>), out, -1),
                        "stackn1" => ce_probe_basic::<C, any_vec::mem::StackN<1, 256>>(src, src.clone_empty_in(any_vec::mem::StackN::<1, 256>), out, -1),
                        "empty" => ce_probe_basic::<C, any_vec::mem::Empty>(src, src.clone_empty_in(any_vec::mem::Empty), out, 0),
                        "fence" => ce_probe_basic::<C, fence::FenceMemBuilder>(src, src.clone_empty_in(fence::FenceMemBuilderK::<1>), out, -1),
                        #[cfg(feature = "alloc")]
                        "heap" => ce_probe_basic::<C, any_vec::mem::Heap>(src, src.clone_empty_in(any_vec::mem::Heap), out, -1),
                        #[cfg(not(feature = "alloc"))]
                        "heap" => ce_probe_basic::<C, any_vec::mem::Stack<512>>(src, src.clone_empty_in(any_vec::mem::Stack::<512>), out, -1),
                        v => panic!("driver: bad via {}", v),
                    }
                }
            }
            "raw_roundtrip" => {
                if !C::raw_ops(self, a, out) { panic!("driver: raw parts not offered by this backend"); }
            }
            "push_wrong" | "insert_wrong" | "swap_wrong" | "splice_wrong" => {
                match st(a, "ty") {
                    "X8" => self.wrong::<crate::elem::X8a8d>(a, out),
                    "Y8" => self.wrong::<crate::elem::Y8a8n>(a, out),
                    "Z16" => self.wrong::<crate::elem::Z16a8d>(a, out),
                    t => panic!("driver: bad wrong type {}", t),
                }
            }
            "cross_wrong" => {
                // a removal handle of a vector with another element type offered to push / insert: must be rejected; the handle is
                // dropped by the unwinding, which completes the removal on ITS vector
                let mut xv: V<C> = C::new_xvec();
                let xid = reg::fresh_id();
                out.born.push(xid);
                xv.push(AnyValueWrapper::new(crate::elem::X8a8d::make(xid, 0)));
                let ins = st(a, "how") == "insert";
                let r = if st(a, "dir") == "into_v" {
                    let v = self.v(x);
                    catch_unwind(AssertUnwindSafe(|| { let h = xv.pop().unwrap(); if ins { v.insert(0, h) } else { v.push(h) } }))
                } else {
                    let v = self.v(x);
                    catch_unwind(AssertUnwindSafe(|| { let h = v.pop().unwrap(); if ins { xv.insert(0, h) } else { xv.push(h) } }))
                };
                let xlen = xv.len();
                drop(xv);
                out.ret.push((xlen as i64, 0));
                if let Err(p) = r { std::panic::resume_unwind(p); }
                out.note.push("wrong_type_admitted".to_string());
            }
            "downcast_q" => {
                let some = match st(a, "ty") {
                    "real" => self.downcast_q::<C::E>(a, out),
                    "X8" => self.downcast_q::<crate::elem::X8a8d>(a, out),
                    "Y8" => self.downcast_q::<crate::elem::Y8a8n>(a, out),
                    "Z16" => self.downcast_q::<crate::elem::Z16a8d>(a, out),
                    "u64" => self.downcast_q::<u64>(a, out),
                    "bytes8" => self.downcast_q::<[u8; 8]>(a, out),
                    t => panic!("driver: bad type {}", t),
                };
                if !some { out.res = "none"; }
            }
            "swap" => {
                let i = usz(a, "i");
                let first = st(a, "side") == "first";
                match st(a, "with") {
                    "elem" => {
                        let w = vidx(st(a, "to"));
                        let mut e1 = self.v(x).at_mut(i);
                        let mut e2 = self.v(w).at_mut(usz(a, "j"));
                        if first { e1.swap(&mut *e2) } else { e2.swap(&mut *e1) }
                    }
                    "handle" => {
                        let w = vidx(st(a, "to"));
                        let mut e1 = self.v(x).at_mut(i);
                        macro_rules! sw { ($t:expr) => { if first { e1.swap($t) } else { $t.swap(&mut *e1) } } }
                        match self.vs[w].h.as_mut().expect("driver: no handle") {
                            Handle::Pop(t) => sw!(t),
                            Handle::Remove(t) => sw!(t),
                            Handle::SwapRemove(t) => sw!(t),
                            _ => panic!("driver: swap with non-tmp handle"),
                        }
                    }
                    "wrapper" => {
                        let val = self.mk(out);
                        let mut wv = AnyValueWrapper::new(val);
                        {
                            let mut e1 = self.v(x).at_mut(i);
                            if first { e1.swap(&mut wv) } else { wv.swap(&mut *e1) }
                        }
                        let back = wv.downcast::<C::E>().expect("driver: wrapper type");
                        self.ext.push(back);
                    }
                    "typed" => {
                        // typed reference on one side, wrapper on the other (both statically typed)
                        let val = self.mk(out);
                        let mut wv = AnyValueWrapper::new(val);
                        {
                            let mut t = self.v(x).downcast_mut::<C::E>().expect("driver: type");
                            let r: &mut C::E = t.at_mut(i);
                            std::mem::swap(r, wv.downcast_mut::<C::E>().expect("driver: type"));
                        }
                        self.ext.push(wv.downcast::<C::E>().expect("driver: wrapper type"));
                    }
                    "raw" => {
                        // the extracted value on top of ext, offered through a raw pointer handle
                        let n = self.ext.len();
                        let p = &mut self.ext[n - 1] as *mut C::E as *mut u8;
                        let mut raw = unsafe { AnyValueRaw::new(NonNull::new_unchecked(p), C::E::SZ, TypeId::of::<C::E>()) };
                        let mut e1 = self.v(x).at_mut(i);
                        if first { e1.swap(&mut raw) } else { raw.swap(&mut *e1) }
                    }
                    k => panic!("driver: bad swap partner {}", k),
                }
            }
            "spare_write" => {
                let k = usz(a, "k");
                let v = self.v(x);
                let (len, cap) = (v.len(), v.capacity());
                let sz = C::E::SZ;
                let base = v.downcast_ref::<C::E>().expect("driver: type").as_ptr() as usize;
                let vals: Vec<C::E> = { let _h = HarnessScope::new(); (0..k).map(|_| self.mk(out)).collect() };
                if st(a, "via") == "bytes" {
                    let sp = v.spare_bytes_mut();
                    let ok = sp.len() == (cap - len).min(1 << 20) * sz && (sz == 0 || sp.as_ptr() as usize == base + len * sz);
                    if !ok { out.note.push("bad_spare".to_string()); }
                    if ok {
                        for (j, val) in vals.into_iter().enumerate() {
                            let val = ManuallyDrop::new(val);
                            for (b, src) in sp[j * sz..(j + 1) * sz].iter_mut().zip(val.bytes()) { b.write(*src); }
                        }
                        unsafe { v.set_len(len + k); }
                    } else { for val in vals { self.ext.push(val); } }
                } else {
                    let mut t = v.downcast_mut::<C::E>().expect("driver: type");
                    let sp = t.spare_capacity_mut();
                    let ok = sp.len() == (cap - len) && (sz == 0 || sp.as_ptr() as usize == base + len * sz);
                    if !ok { out.note.push("bad_spare".to_string()); }
                    if ok {
                        for (j, val) in vals.into_iter().enumerate() { sp[j].write(val); }
                        unsafe { t.set_len(len + k); }
                    } else { for val in vals { self.ext.push(val); } }
                }
            }
            "place" => {
                // the vector object itself placed at every admissible offset inside a page-aligned arena: the storage base
                // must be aligned for the element type wherever the vector lives (also while it is empty)
                // the k-th admissible position: offsets are multiples of the vector object's own alignment
                let off = usz(a, "off") / 8 * std::mem::align_of::<V<C>>();
                #[repr(align(4096))]
                struct Arena([u8; 16384]);
                let mut arena: Box<Arena> = { let _h = HarnessScope::new(); Box::new(Arena([0u8; 16384])) };
                assert!(off + std::mem::size_of::<V<C>>() <= 16384, "driver: bad placement");
                let p = unsafe { arena.0.as_mut_ptr().add(off) } as *mut V<C>;
                unsafe {
                    p.write(AnyVec::new_in::<C::E>(C::mem_builder()));
                    let base = (*p).downcast_ref::<C::E>().expect("driver: type").as_ptr() as usize;
                    let bytes = (*p).as_bytes().as_ptr() as usize;
                    out.ret.push(((base % C::E::AL) as i64, (bytes % C::E::AL) as i64));
                    std::ptr::drop_in_place(p);
                }
                let _h = HarnessScope::new();
                drop(arena);
            }
            "push_many" => {
                // amortisation run (C10): n pushes, the allocator / backend events of the whole run are in the event
                let n = usz(a, "n");
                let first = if C::E::SZ == 0 { 0 } else { reg::next_id() };
                for _ in 0..n {
                    let id = if C::E::SZ == 0 { 0 } else { reg::fresh_id() };
                    self.v(x).downcast_mut::<C::E>().expect("driver: type").push(C::E::make(id, 0));
                }
                out.born.push(first);     // the run's identities are first, first+1, ...
            }
            "recreate" => {
                // drop the vector and build a new one with_capacity(n)
                let n = bound_val(a["n"].as_i64().unwrap_or(0));
                let old = unsafe { vbox_take(self.vs[x].ptr) };
                self.vs[x].ptr = std::ptr::null_mut();
                drop(old);
                let nv = C::with_capacity(n).expect("driver: with_capacity not offered by this backend");
                self.vs[x].ptr = vbox_new(nv);
            }
            o => panic!("driver: unknown op {}", o),
        }
    }

    /// offer a value of another runtime type `X` to a checked entry point: the call must panic, the vector stay unchanged
    fn wrong<X: Elem>(&mut self, a: &Value, out: &mut ActOut) {
        let x = vidx(st(a, "v"));
        let id = reg::fresh_id();
        // a value without drop glue is invisible to the registry: it is not reported as born and is written off at once
        if X::DROP { out.born.push(id); } else { reg::mark_dead_silently(id); }
        let val = X::make(id, 0);
        let raw_src = a.get("src").and_then(|s| s.as_str()) == Some("raw");
        match st(a, "op") {
            "push_wrong" | "insert_wrong" => {
                let ins = st(a, "op") == "insert_wrong";
                let i = a.get("i").and_then(|v| v.as_i64()).unwrap_or(0) as usize;
                if raw_src {
                    let b: Box<ManuallyDrop<X>> = { let _h = HarnessScope::new(); Box::new(ManuallyDrop::new(val)) };
                    let p = &**b as *const X as *mut u8;
                    let raw = unsafe { AnyValueRaw::new(NonNull::new_unchecked(p), X::SZ, TypeId::of::<X>()) };
                    let v = self.v(x);
                    let r = catch_unwind(AssertUnwindSafe(|| if ins { v.insert(i, raw) } else { v.push(raw) }));
                    // the raw pointer did not take ownership when the call was rejected: the driver destroys the value
                    if r.is_err() { drop(ManuallyDrop::into_inner(*b)); }
                    if let Err(p) = r { std::panic::resume_unwind(p); }
                    out.note.push("wrong_type_admitted".to_string());
                } else {
                    let v = self.v(x);
                    if ins { v.insert(i, AnyValueWrapper::new(val)) } else { v.push(AnyValueWrapper::new(val)) }
                    out.note.push("wrong_type_admitted".to_string());
                }
            }
            "swap_wrong" => {
                let mut wv = AnyValueWrapper::new(val);
                let mut e1 = self.v(x).at_mut(usz(a, "i"));
                if st(a, "side") == "first" { e1.swap(&mut wv) } else { wv.swap(&mut *e1) }
                out.note.push("wrong_type_admitted".to_string());
            }
            "splice_wrong" => {
                // n replacement items, the j-th of another type (each a correctly described raw value of its own type)
                let n = usz(a, "n");
                let j = usz(a, "j");
                if a.get("src").and_then(|s| s.as_str()) == Some("wrapper") {
                    // n statically typed values of the wrong type (the replacement iterator's item type is known at compile time)
                    let mut items: Vec<AnyValueWrapper<X>> = { let _h = HarnessScope::new(); Vec::with_capacity(n) };
                    items.push(AnyValueWrapper::new(val));
                    for _ in 1..n {
                        let idk = reg::fresh_id();
                        if X::DROP { out.born.push(idk); } else { reg::mark_dead_silently(idk); }
                        items.push(AnyValueWrapper::new(X::make(idk, 0)));
                    }
                    let v = self.v(x);
                    let r = catch_unwind(AssertUnwindSafe(|| { let sp = v.splice(usz(a, "s")..usz(a, "e"), items); drop(sp); }));
                    if let Err(p) = r { std::panic::resume_unwind(p); }
                    out.note.push("wrong_type_admitted".to_string());
                    return;
                }
                let mut good: Vec<ManuallyDrop<C::E>> = { let _h = HarnessScope::new(); Vec::with_capacity(n) };
                let mut items: Vec<AnyValueRaw> = { let _h = HarnessScope::new(); Vec::with_capacity(n) };
                let bad = ManuallyDrop::new(val);
                for k in 1..=n {
                    if k == j {
                        let p = &*bad as *const X as *mut u8;
                        items.push(unsafe { AnyValueRaw::new(NonNull::new_unchecked(p), X::SZ, TypeId::of::<X>()) });
                    } else {
                        let idk = if C::E::SZ == 0 { 0 } else { reg::fresh_id() };
                        out.born.push(idk);
                        good.push(ManuallyDrop::new(C::E::make(idk, 0)));
                        let p = &**good.last().unwrap() as *const C::E as *mut u8;
                        items.push(unsafe { AnyValueRaw::new(NonNull::new_unchecked(p), C::E::SZ, TypeId::of::<C::E>()) });
                    }
                }
                let v = self.v(x);
                let r = catch_unwind(AssertUnwindSafe(|| { let sp = v.splice(usz(a, "s")..usz(a, "e"), items); drop(sp); }));
                // the wrong-typed value never entered the vector: the driver destroys it; good items that were not moved in leak
                drop(ManuallyDrop::into_inner(bad));
                if let Err(p) = r { std::panic::resume_unwind(p); }
                out.note.push("wrong_type_admitted".to_string());
            }
            o => panic!("driver: bad wrong op {}", o),
        }
    }

    /// does a downcast to `T` succeed on the given kind of object?
    fn downcast_q<T: 'static>(&mut self, a: &Value, _out: &mut ActOut) -> bool {
        let x = vidx(st(a, "v"));
        let i = a.get("i").and_then(|v| v.as_i64()).unwrap_or(0) as usize;
        match st(a, "what") {
            "vec_ref" => self.v(x).downcast_ref::<T>().is_some(),
            "vec_mut" => self.v(x).downcast_mut::<T>().is_some(),
            "elem_ref" => { let e = self.v(x).at(i); let r = e.downcast_ref::<T>().is_some(); r && AnyValue::downcast_ref::<T>(&*e).is_some() }
            "elem_mut" => { let mut e = self.v(x).at_mut(i); let r = e.downcast_mut::<T>().is_some(); r && e.downcast_ref::<T>().is_some() }
            "handle" => match self.vs[x].h.as_mut().expect("driver: no handle") {
                Handle::Pop(t) => t.downcast_ref::<T>().is_some() && t.downcast_mut::<T>().is_some(),
                Handle::Remove(t) => t.downcast_ref::<T>().is_some() && t.downcast_mut::<T>().is_some(),
                Handle::SwapRemove(t) => t.downcast_ref::<T>().is_some() && t.downcast_mut::<T>().is_some(),
                _ => panic!("driver: downcast_q on non-tmp handle"),
            },
            "wrapper" => { let w = AnyValueWrapper::new(7u32); let r = w.downcast_ref::<T>().is_some(); r == (TypeId::of::<T>() == TypeId::of::<u32>()) && TypeId::of::<T>() == TypeId::of::<C::E>() }
            k => panic!("driver: bad downcast target {}", k),
        }
    }

    fn it_hint(it: &ItK<C>) -> (i64, i64, i64) {
        match it {
            ItK::Ref(i) => hint3(i.size_hint(), i.len()),
            ItK::Mut(i) => hint3(i.size_hint(), i.len()),
            ItK::TRef(i) => hint3(i.size_hint(), i.len()),
            ItK::TMut(i) => hint3(i.size_hint(), i.len()),
        }
    }

    fn elem_obs<R: std::ops::Deref<Target = El<C>>>(e: &R, out: &mut ActOut) -> (i64, i64) {
        let ep: &El<C> = e;
        if ep.value_typeid() != TypeId::of::<C::E>() || ep.size() != C::E::SZ { out.note.push("badtype".to_string()); }
        Self::dec(ep.as_bytes())
    }

    /// offer a heap-boxed value through a raw pointer; ownership passes on success, the value comes back to
    /// the driver (ext) when the call is rejected by a panic
    fn with_raw(&mut self, val: C::E, f: impl FnOnce(&mut Self, AnyValueRaw)) {
        let b: Box<ManuallyDrop<C::E>> = { let _h = HarnessScope::new(); Box::new(ManuallyDrop::new(val)) };
        let p = &**b as *const C::E as *mut u8;
        let raw = unsafe { AnyValueRaw::new(NonNull::new_unchecked(p), C::E::SZ, TypeId::of::<C::E>()) };
        let r = catch_unwind(AssertUnwindSafe(|| f(self, raw)));
        match r {
            Ok(()) => drop(b), // frees the box, not the element (it now lives in the vector)
            Err(p) => { self.ext.push(ManuallyDrop::into_inner(*b)); std::panic::resume_unwind(p); }
        }
    }

    /// like with_raw, for the typeless / sizeless raw handles of the *_unchecked entry points
    fn with_raw_ptr(&mut self, val: C::E, f: impl FnOnce(&mut Self, NonNull<u8>)) {
        let b: Box<ManuallyDrop<C::E>> = { let _h = HarnessScope::new(); Box::new(ManuallyDrop::new(val)) };
        let p = unsafe { NonNull::new_unchecked(&**b as *const C::E as *mut u8) };
        let r = catch_unwind(AssertUnwindSafe(|| f(self, p)));
        match r {
            Ok(()) => drop(b),
            Err(p) => { self.ext.push(ManuallyDrop::into_inner(*b)); std::panic::resume_unwind(p); }
        }
    }

    /// one action under catch_unwind; returns the outcome and the callbacks that ran inside the window
    pub fn step(&mut self, a: &Value) -> (ActOut, Vec<Cb>, bool) {
        reg::clear_cbs();
        let mut out = ActOut::new();
        let r = { let _t = TrackedScope::new(); catch_unwind(AssertUnwindSafe(|| self.exec_inner(a, &mut out))) };
        if let Err(p) = r {
            let msg = if let Some(s) = p.downcast_ref::<String>() { s.clone() } else if let Some(s) = p.downcast_ref::<&str>() { s.to_string() } else { "?".to_string() };
            if msg == "driver: type" {
                // downcast_ref / downcast_mut with the vector's REAL element type was denied: that is the library's answer, not a
                // driver problem (C04 / C13: a typed view is available exactly for the real type)
                out.res = "view_denied";
                out.note.push("badtype".to_string());
            } else if msg.starts_with("driver:") {
                // the driver could not perform the action (e.g. the handle it needs does not exist because an earlier step
                // misbehaved): logged, and judged a tool error by the trace specification unless the path is already tainted
                out.res = "driver_error";
                out.note.push(msg);
            } else {
                out.res = "panic";
                out.note.push(panic_class(&msg));
            }
        }
        // raw replacement values that came back
        let back: Vec<Box<dyn std::any::Any>> = RETURNED.with(|r| std::mem::take(&mut *r.borrow_mut()));
        for b in back { self.ext.push(*b.downcast::<C::E>().expect("driver: returned type")); }
        let (cbs, ovf) = reg::take_cbs();
        (out, cbs, ovf)
    }

    /// next action of the health probe run after an injected fault: release what is outstanding (kept items before
    /// their iterator), then extend, read and clear every vector, then drop the extracted values
    pub fn next_probe(&mut self) -> Option<Value> {
        for i in 0..self.vs.len() {
            if !self.vs[i].kept.is_empty() {
                return Some(json!({"op": "item_consume", "v": VNAMES[i], "k": 1, "sink": {"k": "drop", "to": "", "i": 0}}));
            }
            match &self.vs[i].h {
                Some(Handle::Pop(_)) | Some(Handle::Remove(_)) | Some(Handle::SwapRemove(_)) =>
                    return Some(json!({"op": "consume", "v": VNAMES[i], "sink": {"k": "drop", "to": "", "i": 0}})),
                Some(Handle::Iters(_)) => return Some(json!({"op": "iter_end", "v": VNAMES[i]})),
                Some(_) => return Some(json!({"op": "range_drop", "v": VNAMES[i]})),
                None => {}
            }
        }
        for i in 0..self.vs.len() {
            if self.vs[i].probed == 0 { self.vs[i].probed = 1; return Some(json!({"op": "push", "v": VNAMES[i], "src": "wrapper"})); }
            if self.vs[i].probed == 1 { self.vs[i].probed = 2; return Some(json!({"op": "get", "v": VNAMES[i], "i": 0, "kind": "get"})); }
            if self.vs[i].probed == 2 { self.vs[i].probed = 3; return Some(json!({"op": "clear", "v": VNAMES[i], "path": "erased"})); }
        }
        if !self.ext.is_empty() { return Some(json!({"op": "ext_drop", "v": "a"})); }
        None
    }

    /// drop everything: kept items, handles, extracted values, vectors.  Returns the drop callbacks.
    pub fn teardown(&mut self) -> (Vec<Cb>, bool) {
        reg::clear_cbs();
        let t = TrackedScope::new();
        // every release on its own: a panic in one destructor (e.g. a splice beyond a fixed capacity) must not stop the rest
        let mut panics = 0;
        for i in 0..self.vs.len() {
            let k = std::mem::take(&mut self.vs[i].kept);
            for item in k { if catch_unwind(AssertUnwindSafe(move || drop(item))).is_err() { panics += 1; } }
            let h = self.vs[i].h.take();
            if catch_unwind(AssertUnwindSafe(move || drop(h))).is_err() { panics += 1; }
        }
        let e = std::mem::take(&mut self.ext);
        for v in e { if catch_unwind(AssertUnwindSafe(move || drop(v))).is_err() { panics += 1; } }
        // raw replacement values handed back by replacement iterators dropped just now
        let back: Vec<Box<dyn std::any::Any>> = RETURNED.with(|r| std::mem::take(&mut *r.borrow_mut()));
        for v in back { if catch_unwind(AssertUnwindSafe(move || drop(v))).is_err() { panics += 1; } }
        for i in 0..self.vs.len() {
            if !self.vs[i].ptr.is_null() {
                let b = unsafe { vbox_take(self.vs[i].ptr) };
                self.vs[i].ptr = std::ptr::null_mut();
                if catch_unwind(AssertUnwindSafe(move || drop(b))).is_err() { panics += 1; }
            }
        }
        let r: Result<(), ()> = if panics == 0 { Ok(()) } else { Err(()) };
        drop(t);
        let (cbs, _) = reg::take_cbs();
        (cbs, r.is_err())
    }
}

/// vector objects live in 64-byte aligned cells, so that the position of in-object (stack) storage is reproducible;
/// other placements are swept by the `place` action
pub struct VBox<T>(pub *mut T);
fn vcell_layout<T>() -> std::alloc::Layout {
    std::alloc::Layout::from_size_align(std::mem::size_of::<T>().max(1), std::mem::align_of::<T>().max(64)).unwrap()
}
pub fn vbox_new<T>(v: T) -> *mut T {
    let _h = HarnessScope::new();
    unsafe { let p = std::alloc::alloc(vcell_layout::<T>()) as *mut T; assert!(!p.is_null()); p.write(v); p }
}
/// move the object out of its cell and free the cell
pub unsafe fn vbox_take<T>(p: *mut T) -> T {
    let v = p.read();
    let _h = HarnessScope::new();
    std::alloc::dealloc(p as *mut u8, vcell_layout::<T>());
    v
}
impl<T> Drop for VBox<T> { fn drop(&mut self) { unsafe { drop(vbox_take(self.0)); } } }

pub fn pair(d: (i64, i64)) -> (i64, i64) { d }
fn hint3(sh: (usize, Option<usize>), len: usize) -> (i64, i64, i64) {
    (clampi(sh.0), sh.1.map(clampi).unwrap_or(-1), clampi(len))
}
pub fn panic_class(msg: &str) -> String {
    let m = msg.to_ascii_lowercase();
    if m.starts_with("injected:") { return msg.to_string(); }
    let c = if m.contains("index out of") { "index" }
        else if m.contains("type mismatch") { "type" }
        else if m.contains("capacity") || m.contains("insufficient") { "capacity" }
        else if m.contains("overflow") { "overflow" }
        else if m.contains("assertion") { "assert" }
        else { "other" };
    format!("panic:{}", c)
}

pub fn cbs_json(cbs: &[Cb]) -> (Vec<i64>, Vec<Value>, i64, i64, Vec<Value>) {
    let mut drops = vec![];
    let mut clones = vec![];
    let mut nexts = 0;
    let mut lens = 0;
    let mut mem = vec![];
    for c in cbs {
        match *c {
            Cb::Drop(id) => drops.push(if id == u32::MAX { -1 } else { id as i64 }),
            Cb::Clone(s, n) => clones.push(json!([if s == u32::MAX { -1 } else { s as i64 }, n])),
            Cb::Next => nexts += 1,
            Cb::Len => lens += 1,
            Cb::Mem(k, v, a, b, c2, d) => mem.push(json!([k, v, a, b, c2, d])),
        }
    }
    (drops, clones, nexts, lens, mem)
}


fn mk_elem<C: Config>(out: &mut ActOut) -> C::E {
    let id = if C::E::SZ == 0 { 0 } else { reg::fresh_id() };
    out.born.push(id);
    C::E::make(id, 0)
}
fn ce_check<C: Config, M2: MemBuilder>(src: &V<C>, t: &AnyVec<C::Tr, M2>, out: &mut ActOut) {
    if t.len() != 0 || !t.is_empty() { out.note.push("bad_ce_len".to_string()); }
    if t.element_typeid() != src.element_typeid() || t.element_layout() != src.element_layout()
        || t.element_drop().is_some() != src.element_drop().is_some() {
        out.note.push("bad_ce_type".to_string());
    }
}
/// clone_empty / clone_empty_in probe without cloning: the twin accepts a value, reports it, destroys it
pub fn ce_probe_basic<C: Config, M2: MemBuilder>(src: &V<C>, mut t: AnyVec<C::Tr, M2>, out: &mut ActOut, room: i64) {
    ce_check::<C, M2>(src, &t, out);
    if room != 0 {
        let val = mk_elem::<C>(out);
        let d = val.decode_self();
        t.push(AnyValueWrapper::new(val));
        let got = t.downcast_ref::<C::E>().map(|s| s.as_slice()[0].decode_self());
        if got != Some(d) || t.len() != 1 { out.note.push("bad_ce_value".to_string()); }
    }
    drop(t);
}

pub fn clone_ops_impl<C: Config>(w: &mut World<C>, a: &Value, out: &mut ActOut) -> bool
where C::Tr: any_vec::traits::Cloneable {
    use any_vec::any_value::AnyValueCloneable;
    let op = st(a, "op");
    let x = vidx(st(a, "v"));
    match op {
        "clone_vec" => {
            let to = vidx(st(a, "to"));
            let nv: V<C> = w.v(x).clone();
            let old = unsafe { vbox_take(w.vs[to].ptr) };
            w.vs[to].ptr = vbox_new(nv);
            drop(old);
        }
        "ce_probe" => {
            let src: &V<C> = w.v(x);
            macro_rules! probe { ($t:expr, $fixedcap:expr) => {{
                let mut t = $t;
                let mut bad = false;
                if t.len() != 0 { bad = true; }
                if t.element_typeid() != src.element_typeid() || t.element_layout() != src.element_layout()
                    || t.element_drop().is_some() != src.element_drop().is_some() { out.note.push("bad_ce_type".to_string()); }
                let room = if $fixedcap < 0 { 2 } else { $fixedcap };
                if room >= 1 { let val = mk_elem::<C>(out); t.push(AnyValueWrapper::new(val)); }
                if room >= 2 && src.len() > 0 { t.push(src.at(0).lazy_clone()); }
                let t2 = t.clone();
                if t2.len() != t.len() { bad = true; }
                {
                    let s1 = t.downcast_ref::<C::E>().unwrap();
                    let s2 = t2.downcast_ref::<C::E>().unwrap();
                    for k in 0..t.len() { if s1.as_slice()[k].decode_self().1 != s2.as_slice()[k].decode_self().1 { bad = true; } }
                }
                drop(t2);
                if let Some(p) = t.pop() { drop(p); }
                drop(t);
                if bad { out.note.push("bad_ce_len".to_string()); }
            }}}
            match st(a, "via") {
                "same" => probe!(src.clone_empty(), { let (f, c, _) = C::backend(); if f { c.min(2) } else { -1 } }),
                "stack" => probe!(src.clone_empty_in(any_vec::mem::Stack::<512>), -1),
                "stackn" => probe!(src.clone_empty_in(any_vec::mem::StackN::<3, 512>), -1),
                "stackn1" => probe!(src.clone_empty_in(any_vec::mem::StackN::<1, 256>), 1),
                "empty" => probe!(src.clone_empty_in(any_vec::mem::Empty), 0),
                "fence" => probe!(src.clone_empty_in(fence::FenceMemBuilderK::<1>), -1),
                #[cfg(feature = "alloc")]
                "heap" => probe!(src.clone_empty_in(any_vec::mem::Heap), -1),
                #[cfg(not(feature = "alloc"))]
                "heap" => probe!(src.clone_empty_in(any_vec::mem::Stack::<512>), -1),
                v => panic!("driver: bad via {}", v),
            }
        }
        "fn_ptrs" => {
            // the element_clone / element_drop function pointers used directly on raw storage
            let i = usz(a, "i");
            let v: &V<C> = w.v(x);
            let cf = v.element_clone();
            let df = v.element_drop();
            let src = unsafe { v.as_bytes().as_ptr().add(i * C::E::SZ) };
            let mut buf = std::mem::MaybeUninit::<C::E>::uninit();
            unsafe {
                cf(src, buf.as_mut_ptr() as *mut u8, 1);
                out.ret.push(elem::decode_ptr(buf.as_ptr() as *const u8, C::E::SZ));
                match df { Some(f) => f(buf.as_mut_ptr() as *mut u8, 1), None => { if std::mem::needs_drop::<C::E>() { out.note.push("bad_parts".to_string()); } } }
            }
        }
        "lazy" => {
            let depth = usz(a, "depth");
            let n = usz(a, "n");
            let i = usz(a, "i");
            let sink = { let _h = HarnessScope::new(); a["sink"].clone() };
            macro_rules! chain { ($src:expr) => {{
                let l1 = $src.lazy_clone();
                match depth {
                    1 => lazy_consume::<C, _>(w, &l1, n, &sink, out),
                    2 => { let l2 = l1.lazy_clone(); let l2b = l2.clone(); drop(l2); lazy_consume::<C, _>(w, &l2b, n, &sink, out) }
                    _ => { let l2 = l1.lazy_clone(); let l3 = l2.lazy_clone(); lazy_consume::<C, _>(w, &l3, n, &sink, out) }
                }
            }}}
            match st(a, "kind") {
                "elem" => { let e = w.v(x).at(i); chain!(e) }
                "handle" => {
                    let hp: *const Handle<C> = w.vs[x].h.as_ref().expect("driver: no handle");
                    match unsafe { &*hp } {
                        Handle::Pop(t) => chain!(t),
                        Handle::Remove(t) => chain!(t),
                        Handle::SwapRemove(t) => chain!(t),
                        _ => panic!("driver: lazy of non-tmp handle"),
                    }
                }
                "item" => { let ip: *const El<C> = &w.vs[x].kept[i]; let e = unsafe { &*ip }; chain!(e) }
                k => panic!("driver: bad lazy kind {}", k),
            }
        }
        _ => return false,
    }
    true
}

fn lazy_consume<C: Config, L: AnyValue + Clone>(w: &mut World<C>, lz: &L, n: usize, sink: &Value, out: &mut ActOut) {
    if lz.value_typeid() != TypeId::of::<C::E>() || lz.size() != C::E::SZ { out.note.push("badtype".to_string()); }
    match st(sink, "k") {
        "splice" => {
            let items: Vec<L> = { let _h = HarnessScope::new(); (0..n).map(|_| lz.clone()).collect() };
            let to = vidx(st(sink, "to"));
            let sp = w.v(to).splice(usz(sink, "s")..usz(sink, "e"), items);
            drop(sp);
        }
        k => {
            for _ in 0..n {
                let c = lz.clone();
                match k {
                    "push" => { let to = vidx(st(sink, "to")); w.v(to).push(c); }
                    "insert" => { let to = vidx(st(sink, "to")); w.v(to).insert(usz(sink, "i"), c); }
                    "ext" => { let v = c.downcast::<C::E>().expect("driver: lazy downcast"); out.ret.push(v.decode_self()); w.ext.push(v); }
                    k => panic!("driver: bad lazy sink {}", k),
                }
            }
        }
    }
}


pub fn raw_ops_impl<C: Config>(w: &mut World<C>, a: &Value, out: &mut ActOut) -> bool
where <C::M as MemBuilder>::Mem: any_vec::mem::MemRawParts, <<C::M as MemBuilder>::Mem as any_vec::mem::MemRawParts>::Handle: Clone {
    let x = vidx(st(a, "v"));
    let v: V<C> = unsafe { vbox_take(w.vs[x].ptr) };
    w.vs[x].ptr = std::ptr::null_mut();
    let (len0, cap0) = (v.len(), v.capacity());
    let (lay0, ty0, drop0) = (v.element_layout(), v.element_typeid(), v.element_drop().is_some());
    let parts = v.into_raw_parts();
    let mut ok = parts.len == len0 && parts.capacity == cap0 && parts.element_layout == lay0 && parts.element_typeid == ty0
        && parts.element_drop.is_some() == drop0 && lay0 == core::alloc::Layout::new::<C::E>() && ty0 == TypeId::of::<C::E>()
        && drop0 == std::mem::needs_drop::<C::E>();
    if !ok { out.note.push("bad_parts".to_string()); }
    let use_parts = if a.get("clone").and_then(|c| c.as_bool()).unwrap_or(false) {
        let p2 = parts.clone();
        let same = p2.len == parts.len && p2.capacity == parts.capacity && p2.element_layout == parts.element_layout
            && p2.element_typeid == parts.element_typeid && p2.element_drop.map(|f| f as usize) == parts.element_drop.map(|f| f as usize)
            && (p2.element_clone as usize) == (parts.element_clone as usize);
        if !same { out.note.push("bad_parts_clone".to_string()); ok = false; }
        if same { p2 } else { parts }
    } else { parts };
    let _ = ok;
    let nv: V<C> = unsafe { AnyVec::from_raw_parts(use_parts) };
    w.vs[x].ptr = vbox_new(nv);
    true
}
