#!/usr/bin/env python3
"""Regenerate /verif/MANIFEST.json from tools/props.py (claimed properties) and properties.jsonl."""
import json, os, sys
ROOT = os.path.dirname(os.path.dirname(os.path.abspath(__file__)))
sys.path.insert(0, os.path.join(ROOT, "tools"))
import props
ids = [json.loads(l)["id"] for l in open(os.path.join(ROOT, "properties.jsonl"))]
checks = []
for pid in ids:
    if pid not in props.PLAN:
        continue
    pl = props.PLAN[pid]
    checks.append({
        "property_id": pid,
        "quick_cmd": "./check %s quick" % pid,
        "thorough_cmd": "./check %s thorough" % pid,
        "evidence_file": "/verif/evidence/%s.json" % pid,
        "replay_cmd_template": "./check replay {path}",
        "engine": pl.get("engine", "tla-contract"),
        "level_claimed": {"category": pl.get("level", "model_checking"), "text": pl["claim"], "design_ref": pl.get("design_ref", "DESIGN.md section 6")},
        "level_note": pl.get("note", "Exhaustive inside the model bounds only; trusted base: TLC, the harness (public API only, replay determinism checked), rustc."),
        "technique": pl.get("technique", "TLA+ contract spec; TLC-enumerated transitions replayed on the crate; recorded events judged by TLC trace validation"),
    })
na = [{"property_id": p, "reason": props.NOT_YET.get(p, "check under construction in this session; will be claimed when its check exists")} for p in ids if p not in props.PLAN]
m = {
    "version": 1,
    "setup_cmd": "./setup.sh",
    "hooks": {"guard": "any_vec_verif", "enable": "harness/.cargo/config.toml passes --cfg any_vec_verif; /repo contains no hooks (none were needed)",
              "baseline_off_cmd": "cd /repo && cargo test --workspace --no-fail-fast --offline", "source_commits": [], "add_only": True},
    "engines": [
        {"name": "tla-contract", "path": "/verif/spec", "serves_properties": [c["property_id"] for c in checks if c["engine"] == "tla-contract"],
         "kind_free_text": "AnyVec.tla contract + MC_AnyVec.tla bounded exploration (TLC) + TraceAnyVec.tla trace validation (TLC) + Rust replay harness"},
        {"name": "tla-rules", "path": "/verif/spec", "serves_properties": [c["property_id"] for c in checks if c["engine"] == "tla-rules"],
         "kind_free_text": "AnyVecTraits.tla / AnyVecBorrow.tla rule models enumerated by TLC; cases rendered to Rust probes and decided by rustc (tools/probes.py)"},
    ],
    "checks": checks,
    "notes": "See DESIGN.md. ./check <id> quick|thorough ; ./check replay <file>. known_findings.json lists recorded findings and fixed: entries.",
    "not_applicable": na,
}
json.dump(m, open(os.path.join(ROOT, "MANIFEST.json"), "w"), indent=1)
print("claimed:", [c["property_id"] for c in checks])
