#!/usr/bin/env python3
"""usage: tools/ingestseed.py <worktree> <Cxx> <slug> <what> <needs> <confirm line>  -- copy a confirmed sub-agent seed into seeded/"""
import sys, os, shutil, json
w, pid, slug, what, needs, conf = sys.argv[1:7]
d = os.path.join(os.path.dirname(os.path.dirname(os.path.abspath(__file__))), "seeded", "%s-%s" % (pid, slug))
os.makedirs(d, exist_ok=True)
for f in os.listdir(os.path.join(w, "out", "1")):
    src = os.path.join(w, "out", "1", f)
    if os.path.isfile(src) and os.path.getsize(src) < 200000:
        shutil.copy(src, d)
json.dump({"property": pid, "what": what, "needs_to_manifest": needs, "round": int(os.environ.get("SEED_ROUND", "3")),
           "confirmed": {"how": "tools/confirmseed.sh in the scratch worktree: git apply patch.diff; cargo test --offline (suite must pass); demonstration must fail; git checkout; demonstration must pass",
                         "result": conf},
           "produced_by": "independent sub-agent given only the property text and a scratch worktree"}, open(os.path.join(d, "meta.json"), "w"), indent=1)
print(d)
