#!/bin/sh
# Regression of the framework itself (not a registered check; takes ~2 h): every seeded change must be reported by the quick
# check of its property, every benign refactor must leave the listed checks quiet.  Applies patches to /repo and undoes them.
cd /verif
fail=0
for d in seeded/*/; do
  n=$(basename $d); p=$(python3 -c "import json;print(json.load(open('$d/meta.json'))['property'])")
  out=$(tools/tryseed.sh $d/patch.diff $p 2>&1 | grep '^rc=')
  case "$out" in rc=1*) echo "seed $n ($p): reported";; *) echo "seed $n ($p): NOT REPORTED ($out)"; fail=1;; esac
done
for b in "growth-factor-1_5 C10 C18" "clear-reverse-order C01 C03 C06" "panic-messages C01 C04" "clone-with-slack C08 C11" "eager-reserve-in-insert C01 C10 C05"; do
  set -- $b; f=$1; shift
  out=$(tools/tryseed.sh benign/$f.diff "$@" 2>&1 | grep '^rc=' | grep -v '^rc=0')
  if [ -z "$out" ]; then echo "benign $f: quiet"; else echo "benign $f: ALARM $out"; fail=1; fi
done
exit $fail
