#!/usr/bin/env python3
"""Run TLC on a bounded MC_AnyVec model and turn the emitted transition paths into a case trie.

Every generated transition is printed by TLC (ACTION_CONSTRAINT Emit) as the JSON list of actions that
reaches it.  Because TLC keeps, for every distinct (VIEW) state, the path of the transition that first
discovered it, the set of printed paths is prefix-closed: it is a trie whose nodes are exactly the
generated transitions.  Output: ndjson  {"id":k,"parent":p,"act":{...}}  (parents before children),
plus a stats json.
"""
import json, subprocess, sys, os, re, time, shutil

def run(spec_dir, cfg_text, out_cases, workdir, workers=8, timeout=3600, module="MC_AnyVec"):
    os.makedirs(workdir, exist_ok=True)
    for f in os.listdir(spec_dir):
        if f.endswith(".tla"):
            shutil.copy(os.path.join(spec_dir, f), workdir)
    with open(os.path.join(workdir, "MC.cfg"), "w") as f:
        f.write(cfg_text)
    cmd = ["timeout", str(timeout), "tlc", "-workers", str(workers), "-metadir", os.path.join(workdir, "md"),
           "-cleanup", "-noGenerateSpecTE", "-coverage", "1", "-config", "MC.cfg", module + ".tla"]
    t0 = time.time()
    p = subprocess.Popen(cmd, cwd=workdir, stdout=subprocess.PIPE, stderr=subprocess.STDOUT, text=True, bufsize=1 << 20)
    ids = {(): 0}
    pending = []           # paths whose parent has not been seen yet (multi-worker interleaving)
    stats = {"states": 0, "distinct": 0, "transitions": 0, "errors": [], "coverage": {}}
    log = []
    n = 0
    out = open(out_cases, "w")
    def key(path):
        return tuple(json.dumps(a, sort_keys=True) for a in path)
    def add(kpath, path):
        nonlocal n
        if kpath in ids:
            return True
        par = kpath[:-1]
        if par not in ids:
            return False
        n += 1
        ids[kpath] = n
        out.write(json.dumps({"id": n, "parent": ids[par], "act": path[-1]}, sort_keys=True) + "\n")
        return True
    for line in p.stdout:
        if line.startswith('"['):
            path = json.loads(json.loads(line))
            kp = key(path)
            stats["transitions"] += 1
            if not add(kp, path):
                pending.append((kp, path))
        else:
            log.append(line)
            m = re.search(r"(\d+) states generated, (\d+) distinct states found", line)
            if m:
                stats["states"] = int(m.group(1)); stats["distinct"] = int(m.group(2))
            if "Error:" in line or "Exception" in line or "violated" in line:
                stats["errors"].append(line.strip())
            m = re.match(r"<(\w+) line (\d+), col .* of module (\w+)>: (\d+):(\d+)", line)
            if m:
                stats["coverage"][m.group(1)] = [int(m.group(4)), int(m.group(5))]
    rc = p.wait()
    # resolve pending (sorted by length so parents come first)
    pending.sort(key=lambda x: len(x[0]))
    unresolved = 0
    for kp, path in pending:
        if not add(kp, path):
            # parent path was never printed: emit the missing prefix nodes explicitly
            for j in range(1, len(kp) + 1):
                if kp[:j] not in ids:
                    add(kp[:j], path[:j]); unresolved += 1
    out.close()
    stats["cases"] = n
    stats["rc"] = rc
    stats["unresolved_prefixes"] = unresolved
    stats["wall_s"] = round(time.time() - t0, 1)
    with open(os.path.join(workdir, "tlc.log"), "w") as f:
        f.writelines(log)
    shutil.rmtree(os.path.join(workdir, "md"), ignore_errors=True)
    return stats

if __name__ == "__main__":
    spec_dir, cfg, out_cases, workdir = sys.argv[1:5]
    s = run(spec_dir, open(cfg).read(), out_cases, workdir)
    print(json.dumps({k: v for k, v in s.items() if k != "coverage"}))
