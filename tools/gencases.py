#!/usr/bin/env python3
"""Run TLC on a bounded MC_AnyVec model and turn the emitted transition paths into a case trie.

Every generated transition is printed by TLC (ACTION_CONSTRAINT Emit) as the JSON list of actions that
reaches it.  Because TLC keeps, for every distinct (VIEW) state, the path of the transition that first
discovered it, the set of printed paths is prefix-closed: it is a trie whose nodes are exactly the
generated transitions.  Output: ndjson  {"id":k,"parent":p,"act":{...}}  (parents before children),
plus a stats json.
"""
import json, subprocess, sys, os, re, time, shutil

def run(spec_dir, cfg_text, out_cases, workdir, workers=1, timeout=3600, module="MC_AnyVec"):
    os.makedirs(workdir, exist_ok=True)
    for f in os.listdir(spec_dir):
        if f.endswith(".tla"):
            shutil.copy(os.path.join(spec_dir, f), workdir)
    with open(os.path.join(workdir, "MC.cfg"), "w") as f:
        f.write(cfg_text)
    cmd = ["timeout", str(timeout), "tlc", "-workers", "1", "-metadir", os.path.join(workdir, "md"),
           "-cleanup", "-noGenerateSpecTE", "-coverage", "1", "-config", "MC.cfg", module + ".tla"]
    t0 = time.time()
    p = subprocess.Popen(cmd, cwd=workdir, stdout=subprocess.PIPE, stderr=subprocess.STDOUT, text=True, bufsize=1 << 20)
    stats = {"states": 0, "distinct": 0, "transitions": 0, "errors": [], "coverage": {}}
    log = []
    n = 0
    out = open(out_cases, "w")
    seen = {0}
    orphans = 0
    pat = re.compile(r'^<<(\d+), (\d+), "(.*)">>$')
    for line in p.stdout:
        m = pat.match(line.rstrip("\n")) if line.startswith("<<") else None
        if m:
            par, nid = int(m.group(1)), int(m.group(2))
            act = json.loads(json.loads('"' + m.group(3) + '"'))
            stats["transitions"] += 1
            if par not in seen:
                orphans += 1
            seen.add(nid)
            n += 1
            out.write(json.dumps({"id": nid, "parent": par, "act": act}, sort_keys=True) + "\n")
        else:
            log.append(line)
            m = re.search(r"(\d+) states generated, (\d+) distinct states found", line)
            if m:
                stats["states"] = int(m.group(1)); stats["distinct"] = int(m.group(2))
            if "Error:" in line or "Exception" in line or "violated" in line:
                stats["errors"].append(line.strip())
            m = re.match(r"<(\w+) line (\d+), col .* of module (\w+)>: (\d+):(\d+)", line)
            if m:
                stats["coverage"][m.group(1)] = [int(m.group(4)), int(m.group(5))]
    rc = p.wait()
    out.close()
    if orphans:
        stats["errors"].append("%d transitions whose parent transition was not printed before them" % orphans)
    unresolved = orphans
    stats["cases"] = n
    stats["rc"] = rc
    stats["unresolved_prefixes"] = unresolved
    stats["wall_s"] = round(time.time() - t0, 1)
    with open(os.path.join(workdir, "tlc.log"), "w") as f:
        f.writelines(log)
    shutil.rmtree(os.path.join(workdir, "md"), ignore_errors=True)
    return stats

if __name__ == "__main__":
    spec_dir, cfg, out_cases, workdir = sys.argv[1:5]
    s = run(spec_dir, open(cfg).read(), out_cases, workdir)
    print(json.dumps({k: v for k, v in s.items() if k != "coverage"}))
