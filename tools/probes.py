#!/usr/bin/env python3
"""Compile-time properties (C15, C16, C19): TLC enumerates the cases from the TLA+ rule models, this module renders
them into Rust probe programs, compiles them against /repo's current working tree and compares rustc's verdicts."""
import json, os, re, shutil, subprocess, sys, time, hashlib
from concurrent.futures import ThreadPoolExecutor
import vlib
from vlib import ToolError

PROBES = os.path.join(vlib.ROOT, "probes")
PW = os.path.join(vlib.WORK, "probes")

def tlc_cases(module, cfg_text, tag):
    """run TLC on an enumeration module; returns (list of case records printed by the Emit invariant, stats)"""
    wd = os.path.join(vlib.WORK, "mc-" + tag)
    os.makedirs(wd, exist_ok=True)
    for f in os.listdir(vlib.SPEC):
        if f.endswith(".tla"):
            shutil.copy(os.path.join(vlib.SPEC, f), wd)
    open(os.path.join(wd, "E.cfg"), "w").write(cfg_text)
    r = subprocess.run(["timeout", "1200", "tlc", "-workers", "1", "-metadir", os.path.join(wd, "md"), "-cleanup", "-noGenerateSpecTE",
                        "-config", "E.cfg", module + ".tla"], cwd=wd, stdout=subprocess.PIPE, stderr=subprocess.STDOUT, text=True)
    cases, stats = [], {"states": 0, "distinct": 0}
    for line in r.stdout.split("\n"):
        if line.startswith('"{') or line.startswith('"['):
            cases.append(json.loads(json.loads(line)))
        m = re.search(r"(\d+) states generated, (\d+) distinct states found", line)
        if m:
            stats = {"states": int(m.group(1)), "distinct": int(m.group(2))}
    if r.returncode != 0 or "Error:" in r.stdout:
        raise ToolError("TLC failed on %s: %s" % (module, r.stdout[-3000:]))
    shutil.rmtree(wd, ignore_errors=True)
    # one print per distinct state; de-duplicate defensively
    seen, out = set(), []
    for c in cases:
        k = json.dumps(c, sort_keys=True)
        if k not in seen:
            seen.add(k); out.append(c)
    return out, stats

# ----------------------------------------------------------------------------------------------------------------
_rlib = {}
def build_rlib(alloc=True):
    """build /repo's library (current working tree) as an rlib; returns (rlib path, deps dir) or (None, log)"""
    if alloc in _rlib:
        return _rlib[alloc]
    tdir = os.path.join(PROBES, "target" if alloc else "target-noalloc")
    cmd = ["cargo", "build", "--offline", "--release", "--lib", "--manifest-path", "/repo/Cargo.toml", "--target-dir", tdir]
    if not alloc:
        cmd.append("--no-default-features")
    r = subprocess.run(cmd, stdout=subprocess.PIPE, stderr=subprocess.STDOUT, text=True, env=dict(os.environ, CARGO_NET_OFFLINE="true"))
    rlib = os.path.join(tdir, "release", "libany_vec.rlib")
    if r.returncode != 0 or not os.path.exists(rlib):
        _rlib[alloc] = (None, r.stdout)
    else:
        _rlib[alloc] = (rlib, os.path.join(tdir, "release", "deps"))
    return _rlib[alloc]

def rustc(src, out, rlib, deps, kind="metadata", extra=()):
    """compile one probe; returns (ok, error codes, rendered message)"""
    cmd = ["rustc", "--edition", "2021", "--error-format=json", "-L", "dependency=" + deps, "--extern", "any_vec=" + rlib,
           "-A", "warnings", "--cap-lints", "allow"] + list(extra)
    if kind == "metadata":
        cmd += ["--crate-type", "lib", "--emit=metadata", "-o", out]
    else:
        cmd += ["--crate-type", "bin", "-C", "opt-level=0", "-o", out]
    cmd.append(src)
    r = subprocess.run(cmd, stdout=subprocess.PIPE, stderr=subprocess.STDOUT, text=True)
    codes, msgs = [], []
    for line in r.stdout.split("\n"):
        if not line.startswith("{"):
            if line.strip(): msgs.append(line)
            continue
        try: j = json.loads(line)
        except Exception: continue
        if j.get("level") == "error":
            if j.get("code") and j["code"].get("code"): codes.append(j["code"]["code"])
            msgs.append(j.get("message", ""))
    return r.returncode == 0, codes, "; ".join(msgs)[:600]

# ----------------------------------------------------------------------------------------------------------------
PRELUDE = r'''
#![allow(dead_code, unused_imports, unused_variables)]
use any_vec::AnyVec;
use any_vec::traits::{Cloneable, None as TNone};
use any_vec::mem::{Mem, MemBuilder, MemResizable, Stack, StackN, Empty};
use core::alloc::Layout;
use core::marker::PhantomData;
use std::cell::Cell;
use std::rc::Rc;
use std::sync::MutexGuard;

// element classes
pub type SS = u64;
#[derive(Clone)] pub struct SendOnly(pub Cell<u64>);
#[derive(Clone)] pub struct SyncOnly(pub PhantomData<MutexGuard<'static, u8>>, pub u64);
pub type Neither = Rc<u64>;
pub struct SSnoClone(pub u64);
pub struct SendOnlyNoClone(pub Cell<u64>);

// markers
pub type NoSend = PhantomData<MutexGuard<'static, u8>>;   // !Send + Sync
pub type NoSync = PhantomData<Cell<u8>>;                   // Send + !Sync

// user backends: a resizable Mem over Vec<u128>-free raw storage is not needed for type-level probes: the Mem is never used
pub struct UMem<P>(pub Layout, pub PhantomData<P>);
impl<P> Mem for UMem<P> {
    fn as_ptr(&self) -> *const u8 { self.0.align() as *const u8 }
    fn as_mut_ptr(&mut self) -> *mut u8 { self.0.align() as *mut u8 }
    fn element_layout(&self) -> Layout { self.0 }
    fn size(&self) -> usize { 0 }
    fn expand(&mut self, _a: usize) { panic!() }
}
impl<P> MemResizable for UMem<P> { fn resize(&mut self, _n: usize) { panic!() } }
pub struct UB<PB, PM>(pub PhantomData<PB>, pub PhantomData<PM>);
impl<PB, PM> Clone for UB<PB, PM> { fn clone(&self) -> Self { UB(PhantomData, PhantomData) } }
impl<PB, PM> Default for UB<PB, PM> { fn default() -> Self { UB(PhantomData, PhantomData) } }
impl<PB, PM> MemBuilder for UB<PB, PM> { type Mem = UMem<PM>; fn build(&mut self, l: Layout) -> UMem<PM> { UMem(l, PhantomData) } }
pub type UBnoSend = UB<NoSend, ()>;
pub type UBnoSync = UB<NoSync, ()>;
pub type UMnoSend = UB<(), NoSend>;
pub type UMnoSync = UB<(), NoSync>;
'''
HEAP_USE = "use any_vec::mem::Heap;\n"

AUTOREF = r'''
pub struct Q<T: ?Sized>(PhantomData<T>);
pub trait Fallback { const SEND: bool = false; const SYNC: bool = false; }
impl<T: ?Sized> Fallback for Q<T> {}
pub struct QS<T: ?Sized>(PhantomData<T>);
pub struct QY<T: ?Sized>(PhantomData<T>);
pub trait FbS { const V: bool = false; } impl<T: ?Sized> FbS for QS<T> {}
pub trait FbY { const V: bool = false; } impl<T: ?Sized> FbY for QY<T> {}
impl<T: ?Sized + Send> QS<T> { pub const V: bool = true; }
impl<T: ?Sized + Sync> QY<T> { pub const V: bool = true; }
'''

def ts_type(ts):
    return "dyn " + (" + ".join(ts) if ts else "TNone")

BACKEND_TY = {"Heap": "Heap", "Stack": "Stack<64>", "StackN": "StackN<4, 64>", "Empty": "Empty",
              "UBnoSend": "UBnoSend", "UBnoSync": "UBnoSync", "UMnoSend": "UMnoSend", "UMnoSync": "UMnoSync"}

def type_expr(c):
    ts, b, e, ty = ts_type(c["ts"]), BACKEND_TY[c["backend"]], c["elem"], c["ty"]
    return {
        "AnyVec": "AnyVec<%s, %s>" % (ts, b),
        "ElementRef": "any_vec::element::ElementRef<'static, %s, %s>" % (ts, b),
        "ElementMut": "any_vec::element::ElementMut<'static, %s, %s>" % (ts, b),
        "Element": "any_vec::element::Element<'static, %s, %s>" % (ts, b),
        "IterRef": "any_vec::IterRef<'static, %s, %s>" % (ts, b),
        "IterMut": "any_vec::IterMut<'static, %s, %s>" % (ts, b),
        "Pop": "any_vec::ops::Pop<'static, %s, %s>" % (ts, b),
        "Remove": "any_vec::ops::Remove<'static, %s, %s>" % (ts, b),
        "SwapRemove": "any_vec::ops::SwapRemove<'static, %s, %s>" % (ts, b),
        "Drain": "any_vec::ops::Drain<'static, %s, %s>" % (ts, b),
        "Splice": "any_vec::ops::Splice<'static, %s, %s, std::vec::IntoIter<any_vec::any_value::AnyValueWrapper<u64>>>" % (ts, b),
        "LazyCloneOfElementRef": "any_vec::any_value::LazyClone<'static, any_vec::element::Element<'static, %s, %s>>" % (ts, b),
        "AnyVecRef": "any_vec::AnyVecRef<'static, %s, %s>" % (e, b),
        "AnyVecMut": "any_vec::AnyVecMut<'static, %s, %s>" % (e, b),
    }[ty]

def run_auto(cases, rlib, deps):
    """all Send/Sync queries in one compilation (inherent-const-over-trait-const selection)"""
    os.makedirs(PW, exist_ok=True)
    src = os.path.join(PW, "auto.rs")
    lines = [PRELUDE.replace("#![allow", "#![allow"), HEAP_USE, AUTOREF, "fn main() {"]
    for i, c in enumerate(cases):
        q = "QS" if c["trait"] == "Send" else "QY"
        lines.append('    println!("%d {}", <%s<%s>>::V);' % (i, q, type_expr(c)))
    lines.append("}")
    open(src, "w").write("\n".join(lines))
    exe = os.path.join(PW, "auto.bin")
    ok, codes, msg = rustc(src, exe, rlib, deps, kind="bin")
    if not ok:
        return None, "auto-trait probe crate does not compile against /repo: %s %s" % (codes, msg)
    r = subprocess.run([exe], stdout=subprocess.PIPE, text=True)
    res = {}
    for line in r.stdout.split("\n"):
        if line.strip():
            i, v = line.split()
            res[int(i)] = (v == "true")
    return res, None

def elem_expr(e):
    return {"SS": "SS", "SendOnly": "SendOnly", "SyncOnly": "SyncOnly", "Neither": "Neither", "SSnoClone": "SSnoClone", "SendOnlyNoClone": "SendOnlyNoClone"}[e]

def builder_expr(b):
    return {"Heap": "Heap", "Stack": "Stack::<64>", "StackN": "StackN::<4, 64>", "Empty": "Empty"}.get(b, "%s::default()" % b)

def compile_case_src(c):
    ts, b = ts_type(c["ts"]), BACKEND_TY[c["backend"]]
    if c["kind"] == "ctor":
        body = "pub fn f() { let _v: AnyVec<%s, %s> = AnyVec::new_in::<%s>(%s); }" % (ts, b, elem_expr(c["elem"]), builder_expr(c["backend"]))
    elif c["kind"] == "method":
        m = c["ty"]
        if m == "clone":
            body = "pub fn f(v: &AnyVec<%s, %s>) { let _w: AnyVec<%s, %s> = v.clone(); }" % (ts, b, ts, b)
        elif m == "with_capacity":
            body = "pub fn f() { let _v: AnyVec<%s, %s> = AnyVec::with_capacity_in::<u64>(4, %s); }" % (ts, b, builder_expr(c["backend"]))
        elif m in ("reserve", "reserve_exact", "shrink_to"):
            body = "pub fn f(v: &mut AnyVec<%s, %s>) { v.%s(1); }" % (ts, b, m)
        else:
            body = "pub fn f(v: &mut AnyVec<%s, %s>) { v.%s(); }" % (ts, b, m)
    else:
        raise ToolError("bad case kind " + c["kind"])
    return PRELUDE + HEAP_USE + body + "\n"

REJECT_CODES = {"E0277", "E0599", "E0432", "E0433", "E0412", "E0405", "E0271", "E0308"}

def run_compile_cases(cases, rlib, deps, tag):
    os.makedirs(PW, exist_ok=True)
    def one(ic):
        i, c = ic
        src = os.path.join(PW, "%s_%d.rs" % (tag, i))
        open(src, "w").write(compile_case_src(c))
        ok, codes, msg = rustc(src, os.path.join(PW, "%s_%d.rmeta" % (tag, i)), rlib, deps)
        return i, ok, codes, msg
    with ThreadPoolExecutor(max_workers=12) as ex:
        return list(ex.map(one, enumerate(cases)))

def write_probe_replay(pid, c, program, expected, got):
    os.makedirs(vlib.REPLAYS, exist_ok=True)
    h = hashlib.sha256(json.dumps(c, sort_keys=True).encode()).hexdigest()[:12]
    p = os.path.join(vlib.REPLAYS, "%s-%s.json" % (pid, h))
    json.dump({"property": pid, "case": c, "program": program, "expected": expected, "got": got, "kind": "probe"}, open(p, "w"), indent=1)
    return p

TRAITS_CFG = "INIT Init\nNEXT Next\nINVARIANT EmitInv RuleSanity\nCHECK_DEADLOCK FALSE\n"

def c15_cases():
    cases, stats = tlc_cases("AnyVecTraits", TRAITS_CFG, "traits")
    return cases, stats

ELEM_ATTR = {"SS": (True, True), "SendOnly": (True, False), "SyncOnly": (False, True), "Neither": (False, False),
             "SSnoClone": (True, True), "SendOnlyNoClone": (True, False)}
BACK_ATTR = {"Heap": (True, True), "Stack": (True, True), "StackN": (True, True), "Empty": (True, True), "UBnoSend": (False, True),
             "UBnoSync": (True, False), "UMnoSend": (False, True), "UMnoSync": (True, False)}
def view_need(c):
    """for typed views: which declared constraint the rule needs, and whether element and backend have what they need"""
    if c["ty"] not in ("AnyVecRef", "AnyVecMut"):
        return {}
    need = "Sync" if (c["ty"] == "AnyVecRef" or c["trait"] == "Sync") else "Send"
    es, ey = ELEM_ATTR[c["elem"]]
    bs, by = BACK_ATTR[c["backend"]]
    if c["ty"] == "AnyVecRef":
        elem_ok, back_ok = ey, by
    else:
        elem_ok, back_ok = (es, bs) if c["trait"] == "Send" else (ey, by)
    return {"constraint_missing": need not in c["ts"], "elem_has": elem_ok, "backend_has": back_ok}

def sig_c15(c):
    d = _sig_c15(c)
    d.update(view_need(c))
    return d

def _sig_c15(c):
    return {"pred": {"auto": "handle_send_sync", "ctor": "ctor_rejected", "method": "method_gated", "feature": "feature"}[c["kind"]]
            if not (c["kind"] == "auto" and c["ty"] == "AnyVec") else "vec_send_sync_iff",
            "ty": c["ty"], "trait": c["trait"], "ts": "+".join(c["ts"]) or "None", "backend": c["backend"], "elem": c["elem"],
            "declares": c["trait"] in c["ts"], "op": c["kind"], "config": c["backend"], "profile": "n/a"}

def run_c15(tier, seed):
    t0 = time.time()
    cases, stats = c15_cases()
    rlib, deps = build_rlib(True)
    if rlib is None:
        return None, deps
    autos = [c for c in cases if c["kind"] == "auto"]
    comp = [c for c in cases if c["kind"] in ("ctor", "method")]
    res, err = run_auto(autos, rlib, deps)
    if res is None:
        return None, err
    found = []   # (sig, case, message, program)
    for i, c in enumerate(autos):
        got = res.get(i)
        if got is None:
            raise ToolError("auto probe produced no verdict for case %d" % i)
        bad = (got != c["expect"]) if c["dir"] == "iff" else (got and not c["expect"])
        if bad:
            prog = "<%s as %s>?  (type of an %s with constraint set {%s}, backend %s, element %s)" % (type_expr(c), c["trait"], c["ty"], ",".join(c["ts"]), c["backend"], c["elem"])
            found.append((sig_c15(c), c, "%s: %s is %s%s but the rules %s it" % (c["ty"], c["trait"], "" if got else "not ", "implemented",
                                                                                   "forbid" if got else "require"), prog, got))
    out = run_compile_cases(comp, rlib, deps, "c15")
    for (i, ok, codes, msg) in out:
        c = comp[i]
        if ok != c["expect"]:
            found.append((sig_c15(c), c, "%s %s: compiles=%s expected=%s %s" % (c["kind"], c["ty"], ok, c["expect"], msg[:200]), compile_case_src(c), ok))
        elif not ok and not (set(codes) & REJECT_CODES):
            raise ToolError("probe rejected for an unexpected reason %s: %s" % (codes, msg))
    cov = {"states": stats["distinct"], "transitions": max(stats["states"], 1), "traces_validated_against_impl": len(autos) + len(comp),
           "evaluations": len(autos) + len(comp),
           "distinct_nontrivial": len({(c["ty"], c["trait"], tuple(c["ts"]), c["backend"], c["elem"]) for c in autos + comp}),
           "samples": [{"case": autos[0], "type": type_expr(autos[0])}, {"case": comp[0], "program": compile_case_src(comp[0])[-200:]}],
           "exhaustive": True, "auto_queries": len(autos), "compile_probes": len(comp), "wall_probe_s": round(time.time() - t0, 1)}
    return (found, cov), None
