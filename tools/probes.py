#!/usr/bin/env python3
"""Compile-time properties (C15, C16, C19): TLC enumerates the cases from the TLA+ rule models, this module renders
them into Rust probe programs, compiles them against /repo's current working tree and compares rustc's verdicts."""
import json, os, re, shutil, subprocess, sys, time, hashlib
from concurrent.futures import ThreadPoolExecutor
import vlib
from vlib import ToolError

PROBES = os.path.join(vlib.ROOT, "probes")
PW = os.path.join(vlib.WORK, "probes")

def tlc_cases(module, cfg_text, tag):
    """run TLC on an enumeration module; returns (list of case records printed by the Emit invariant, stats)"""
    wd = os.path.join(vlib.WORK, "mc-" + tag)
    os.makedirs(wd, exist_ok=True)
    for f in os.listdir(vlib.SPEC):
        if f.endswith(".tla"):
            shutil.copy(os.path.join(vlib.SPEC, f), wd)
    open(os.path.join(wd, "E.cfg"), "w").write(cfg_text)
    r = subprocess.run(["timeout", "1200", "tlc", "-workers", "1", "-metadir", os.path.join(wd, "md"), "-cleanup", "-noGenerateSpecTE",
                        "-config", "E.cfg", module + ".tla"], cwd=wd, stdout=subprocess.PIPE, stderr=subprocess.STDOUT, text=True)
    cases, stats = [], {"states": 0, "distinct": 0}
    for line in r.stdout.split("\n"):
        if line.startswith('"{') or line.startswith('"['):
            cases.append(json.loads(json.loads(line)))
        m = re.search(r"(\d+) states generated, (\d+) distinct states found", line)
        if m:
            stats = {"states": int(m.group(1)), "distinct": int(m.group(2))}
    if r.returncode != 0 or "Error:" in r.stdout:
        raise ToolError("TLC failed on %s: %s" % (module, r.stdout[-3000:]))
    shutil.rmtree(wd, ignore_errors=True)
    # one print per distinct state; de-duplicate defensively
    seen, out = set(), []
    for c in cases:
        k = json.dumps(c, sort_keys=True)
        if k not in seen:
            seen.add(k); out.append(c)
    return out, stats

# ----------------------------------------------------------------------------------------------------------------
_rlib = {}
def build_rlib(alloc=True):
    """build /repo's library (current working tree) as an rlib; returns (rlib path, deps dir) or (None, log)"""
    if alloc in _rlib:
        return _rlib[alloc]
    tdir = os.path.join(PROBES, "target" if alloc else "target-noalloc")
    cmd = ["cargo", "build", "--offline", "--release", "--lib", "--manifest-path", os.path.join(os.environ.get("VERIF_REPO", "/repo"), "Cargo.toml"), "--target-dir", tdir]
    if not alloc:
        cmd.append("--no-default-features")
    r = subprocess.run(cmd, stdout=subprocess.PIPE, stderr=subprocess.STDOUT, text=True, env=dict(os.environ, CARGO_NET_OFFLINE="true"))
    rlib = os.path.join(tdir, "release", "libany_vec.rlib")
    if r.returncode != 0 or not os.path.exists(rlib):
        _rlib[alloc] = (None, r.stdout)
    else:
        _rlib[alloc] = (rlib, os.path.join(tdir, "release", "deps"))
    return _rlib[alloc]

def rustc(src, out, rlib, deps, kind="metadata", extra=()):
    """compile one probe; returns (ok, error codes, rendered message)"""
    cmd = ["rustc", "--edition", "2021", "--error-format=json", "-L", "dependency=" + deps, "--extern", "any_vec=" + rlib,
           "-A", "warnings", "--cap-lints", "allow"] + list(extra)
    if kind == "metadata":
        cmd += ["--crate-type", "lib", "--emit=metadata", "-o", out]
    else:
        cmd += ["--crate-type", "bin", "-C", "opt-level=0", "-o", out]
    cmd.append(src)
    r = subprocess.run(cmd, stdout=subprocess.PIPE, stderr=subprocess.STDOUT, text=True)
    codes, msgs = [], []
    for line in r.stdout.split("\n"):
        if not line.startswith("{"):
            if line.strip(): msgs.append(line)
            continue
        try: j = json.loads(line)
        except Exception: continue
        if j.get("level") == "error":
            if j.get("code") and j["code"].get("code"): codes.append(j["code"]["code"])
            msgs.append(j.get("message", ""))
    return r.returncode == 0, codes, "; ".join(msgs)[:600]

# ----------------------------------------------------------------------------------------------------------------
PRELUDE = r'''
#![allow(dead_code, unused_imports, unused_variables)]
use any_vec::AnyVec;
use any_vec::traits::{Cloneable, None as TNone};
use any_vec::mem::{Mem, MemBuilder, MemResizable, Stack, StackN, Empty};
use core::alloc::Layout;
use core::marker::PhantomData;
use std::cell::Cell;
use std::rc::Rc;
use std::sync::MutexGuard;

// element classes
pub type SS = u64;
#[derive(Clone)] pub struct SendOnly(pub Cell<u64>);
#[derive(Clone)] pub struct SyncOnly(pub PhantomData<MutexGuard<'static, u8>>, pub u64);
pub type Neither = Rc<u64>;
pub struct SSnoClone(pub u64);
pub struct SendOnlyNoClone(pub Cell<u64>);

// markers
pub type NoSend = PhantomData<MutexGuard<'static, u8>>;   // !Send + Sync
pub type NoSync = PhantomData<Cell<u8>>;                   // Send + !Sync

// user backends: a resizable Mem over Vec<u128>-free raw storage is not needed for type-level probes: the Mem is never used
pub struct UMem<P>(pub Layout, pub PhantomData<P>);
impl<P> Mem for UMem<P> {
    fn as_ptr(&self) -> *const u8 { self.0.align() as *const u8 }
    fn as_mut_ptr(&mut self) -> *mut u8 { self.0.align() as *mut u8 }
    fn element_layout(&self) -> Layout { self.0 }
    fn size(&self) -> usize { 0 }
    fn expand(&mut self, _a: usize) { panic!() }
}
impl<P> MemResizable for UMem<P> { fn resize(&mut self, _n: usize) { panic!() } }
pub struct UB<PB, PM>(pub PhantomData<PB>, pub PhantomData<PM>);
impl<PB, PM> Clone for UB<PB, PM> { fn clone(&self) -> Self { UB(PhantomData, PhantomData) } }
impl<PB, PM> Default for UB<PB, PM> { fn default() -> Self { UB(PhantomData, PhantomData) } }
impl<PB, PM> MemBuilder for UB<PB, PM> { type Mem = UMem<PM>; fn build(&mut self, l: Layout) -> UMem<PM> { UMem(l, PhantomData) } }
pub type UBnoSend = UB<NoSend, ()>;
pub type UBnoSync = UB<NoSync, ()>;
pub type UMnoSend = UB<(), NoSend>;
pub type UMnoSync = UB<(), NoSync>;
'''
HEAP_USE = "use any_vec::mem::Heap;\n"

AUTOREF = r'''
pub struct Q<T: ?Sized>(PhantomData<T>);
pub trait Fallback { const SEND: bool = false; const SYNC: bool = false; }
impl<T: ?Sized> Fallback for Q<T> {}
pub struct QS<T: ?Sized>(PhantomData<T>);
pub struct QY<T: ?Sized>(PhantomData<T>);
pub trait FbS { const V: bool = false; } impl<T: ?Sized> FbS for QS<T> {}
pub trait FbY { const V: bool = false; } impl<T: ?Sized> FbY for QY<T> {}
impl<T: ?Sized + Send> QS<T> { pub const V: bool = true; }
impl<T: ?Sized + Sync> QY<T> { pub const V: bool = true; }
// the same selection for types that cannot be named (opaque return types): inherent method over trait method, the type taken
// from a closure's return type - the closure is never called
impl<T: ?Sized + Send> QS<T> { pub fn v(&self) -> bool { true } }
impl<T: ?Sized + Sync> QY<T> { pub fn v(&self) -> bool { true } }
pub trait FbSm { fn v(&self) -> bool { false } } impl<T: ?Sized> FbSm for QS<T> {}
pub trait FbYm { fn v(&self) -> bool { false } } impl<T: ?Sized> FbYm for QY<T> {}
pub fn ret_qs<A, R, F: FnOnce(A) -> R>(_f: F) -> QS<R> { QS(PhantomData) }
pub fn ret_qy<A, R, F: FnOnce(A) -> R>(_f: F) -> QY<R> { QY(PhantomData) }
'''

def ts_type(ts):
    return "dyn " + (" + ".join(ts) if ts else "TNone")

BACKEND_TY = {"Heap": "Heap", "Stack": "Stack<64>", "StackN": "StackN<4, 64>", "Empty": "Empty",
              "UBnoSend": "UBnoSend", "UBnoSync": "UBnoSync", "UMnoSend": "UMnoSend", "UMnoSync": "UMnoSync"}

def type_expr(c):
    ts, b, e, ty = ts_type(c["ts"]), BACKEND_TY[c["backend"]], c["elem"], c["ty"]
    return {
        "AnyVec": "AnyVec<%s, %s>" % (ts, b),
        "ElementRef": "any_vec::element::ElementRef<'static, %s, %s>" % (ts, b),
        "ElementMut": "any_vec::element::ElementMut<'static, %s, %s>" % (ts, b),
        "Element": "any_vec::element::Element<'static, %s, %s>" % (ts, b),
        "IterRef": "any_vec::IterRef<'static, %s, %s>" % (ts, b),
        "IterMut": "any_vec::IterMut<'static, %s, %s>" % (ts, b),
        "Pop": "any_vec::ops::Pop<'static, %s, %s>" % (ts, b),
        "Remove": "any_vec::ops::Remove<'static, %s, %s>" % (ts, b),
        "SwapRemove": "any_vec::ops::SwapRemove<'static, %s, %s>" % (ts, b),
        "Drain": "any_vec::ops::Drain<'static, %s, %s>" % (ts, b),
        "Splice": "any_vec::ops::Splice<'static, %s, %s, std::vec::IntoIter<any_vec::any_value::AnyValueWrapper<u64>>>" % (ts, b),
        "LazyCloneOfElementRef": "any_vec::any_value::LazyClone<'static, any_vec::element::Element<'static, %s, %s>>" % (ts, b),
        "AnyVecRef": "any_vec::AnyVecRef<'static, %s, %s>" % (e, b),
        "AnyVecMut": "any_vec::AnyVecMut<'static, %s, %s>" % (e, b),
        "TypedDrain": "(return type of any_vec::AnyVecMut<'static, %s, %s>::drain(..))" % (e, b),
        "TypedSplice": "(return type of any_vec::AnyVecMut<'static, %s, %s>::splice(.., Vec<%s>))" % (e, b, e),
    }[ty]

def run_auto(cases, rlib, deps):
    """all Send/Sync queries in one compilation (inherent-const-over-trait-const selection)"""
    os.makedirs(PW, exist_ok=True)
    src = os.path.join(PW, "auto.rs")
    lines = [PRELUDE.replace("#![allow", "#![allow"), HEAP_USE, AUTOREF, "fn main() {"]
    for i, c in enumerate(cases):
        q = "QS" if c["trait"] == "Send" else "QY"
        if c["ty"] in ("TypedDrain", "TypedSplice"):
            call = "t.drain(..)" if c["ty"] == "TypedDrain" else "t.splice(.., std::vec::Vec::<%s>::new())" % c["elem"]
            lines.append('    println!("%d {}", ret_%s(|t: &\'static mut any_vec::AnyVecMut<\'static, %s, %s>| %s).v());'
                         % (i, q.lower(), c["elem"], BACKEND_TY[c["backend"]], call))
            continue
        lines.append('    println!("%d {}", <%s<%s>>::V);' % (i, q, type_expr(c)))
    lines.append("}")
    open(src, "w").write("\n".join(lines))
    exe = os.path.join(PW, "auto.bin")
    ok, codes, msg = rustc(src, exe, rlib, deps, kind="bin")
    if not ok:
        return None, "auto-trait probe crate does not compile against /repo: %s %s" % (codes, msg)
    r = subprocess.run([exe], stdout=subprocess.PIPE, text=True)
    res = {}
    for line in r.stdout.split("\n"):
        if line.strip():
            i, v = line.split()
            res[int(i)] = (v == "true")
    return res, None

def elem_expr(e):
    return {"SS": "SS", "SendOnly": "SendOnly", "SyncOnly": "SyncOnly", "Neither": "Neither", "SSnoClone": "SSnoClone", "SendOnlyNoClone": "SendOnlyNoClone"}[e]

def builder_expr(b):
    return {"Heap": "Heap", "Stack": "Stack::<64>", "StackN": "StackN::<4, 64>", "Empty": "Empty"}.get(b, "%s::default()" % b)

def compile_case_src(c):
    ts, b = ts_type(c["ts"]), BACKEND_TY[c["backend"]]
    if c["kind"] == "ctor":
        body = "pub fn f() { let _v: AnyVec<%s, %s> = AnyVec::new_in::<%s>(%s); }" % (ts, b, elem_expr(c["elem"]), builder_expr(c["backend"]))
    elif c["kind"] == "method":
        m = c["ty"]
        if m == "clone":
            body = "pub fn f(v: &AnyVec<%s, %s>) { let _w: AnyVec<%s, %s> = v.clone(); }" % (ts, b, ts, b)
        elif m == "with_capacity":
            body = "pub fn f() { let _v: AnyVec<%s, %s> = AnyVec::with_capacity_in::<u64>(4, %s); }" % (ts, b, builder_expr(c["backend"]))
        elif m in ("reserve", "reserve_exact", "shrink_to"):
            body = "pub fn f(v: &mut AnyVec<%s, %s>) { v.%s(1); }" % (ts, b, m)
        elif m in ("t_reserve", "t_reserve_exact", "t_shrink_to"):
            body = "pub fn f(v: &mut AnyVec<%s, %s>) { v.downcast_mut::<SS>().unwrap().%s(1); }" % (ts, b, m[2:])
        elif m == "t_shrink_to_fit":
            body = "pub fn f(v: &mut AnyVec<%s, %s>) { v.downcast_mut::<SS>().unwrap().shrink_to_fit(); }" % (ts, b)
        else:
            body = "pub fn f(v: &mut AnyVec<%s, %s>) { v.%s(); }" % (ts, b, m)
    else:
        raise ToolError("bad case kind " + c["kind"])
    return PRELUDE + HEAP_USE + body + "\n"

REJECT_CODES = {"E0277", "E0599", "E0432", "E0433", "E0412", "E0405", "E0271", "E0308"}

def run_compile_cases(cases, rlib, deps, tag):
    os.makedirs(PW, exist_ok=True)
    def one(ic):
        i, c = ic
        src = os.path.join(PW, "%s_%d.rs" % (tag, i))
        open(src, "w").write(compile_case_src(c))
        ok, codes, msg = rustc(src, os.path.join(PW, "%s_%d.rmeta" % (tag, i)), rlib, deps)
        return i, ok, codes, msg
    with ThreadPoolExecutor(max_workers=12) as ex:
        return list(ex.map(one, enumerate(cases)))

def write_probe_replay(pid, c, program, expected, got):
    os.makedirs(vlib.REPLAYS, exist_ok=True)
    h = hashlib.sha256(json.dumps(c, sort_keys=True).encode()).hexdigest()[:12]
    p = os.path.join(vlib.REPLAYS, "%s-%s.json" % (pid, h))
    json.dump({"property": pid, "case": c, "program": program, "expected": expected, "got": got, "kind": "probe"}, open(p, "w"), indent=1)
    return p

TRAITS_CFG = "INIT Init\nNEXT Next\nINVARIANT EmitInv RuleSanity\nCHECK_DEADLOCK FALSE\n"

def c15_cases():
    cases, stats = tlc_cases("AnyVecTraits", TRAITS_CFG, "traits")
    return cases, stats

ELEM_ATTR = {"SS": (True, True), "SendOnly": (True, False), "SyncOnly": (False, True), "Neither": (False, False),
             "SSnoClone": (True, True), "SendOnlyNoClone": (True, False)}
BACK_ATTR = {"Heap": (True, True), "Stack": (True, True), "StackN": (True, True), "Empty": (True, True), "UBnoSend": (False, True),
             "UBnoSync": (True, False), "UMnoSend": (False, True), "UMnoSync": (True, False)}
def view_need(c):
    """for typed views: which declared constraint the rule needs, and whether element and backend have what they need"""
    if c["ty"] not in ("AnyVecRef", "AnyVecMut", "TypedDrain", "TypedSplice"):
        return {}
    need = "Sync" if (c["ty"] == "AnyVecRef" or c["trait"] == "Sync") else "Send"
    es, ey = ELEM_ATTR[c["elem"]]
    bs, by = BACK_ATTR[c["backend"]]
    if c["ty"] == "AnyVecRef":
        elem_ok, back_ok = ey, by
    else:
        elem_ok, back_ok = (es, bs) if c["trait"] == "Send" else (ey, by)
    return {"constraint_missing": need not in c["ts"], "elem_has": elem_ok, "backend_has": back_ok}

def sig_c15(c):
    d = _sig_c15(c)
    d.update(view_need(c))
    return d

def _sig_c15(c):
    return {"pred": {"auto": "handle_send_sync", "ctor": "ctor_rejected", "method": "method_gated", "feature": "feature"}[c["kind"]]
            if not (c["kind"] == "auto" and c["ty"] == "AnyVec") else "vec_send_sync_iff",
            "ty": c["ty"], "trait": c["trait"], "ts": "+".join(c["ts"]) or "None", "backend": c["backend"], "elem": c["elem"],
            "declares": c["trait"] in c["ts"], "op": c["kind"], "config": c["backend"], "profile": "n/a"}

def run_c15(tier, seed):
    t0 = time.time()
    cases, stats = c15_cases()
    rlib, deps = build_rlib(True)
    if rlib is None:
        return None, deps
    autos = [c for c in cases if c["kind"] == "auto"]
    comp = [c for c in cases if c["kind"] in ("ctor", "method")]
    res, err = run_auto(autos, rlib, deps)
    if res is None:
        return None, err
    found = []   # (sig, case, message, program)
    for i, c in enumerate(autos):
        got = res.get(i)
        if got is None:
            raise ToolError("auto probe produced no verdict for case %d" % i)
        bad = (got != c["expect"]) if c["dir"] == "iff" else (got and not c["expect"])
        if bad:
            prog = "<%s as %s>?  (type of an %s with constraint set {%s}, backend %s, element %s)" % (type_expr(c), c["trait"], c["ty"], ",".join(c["ts"]), c["backend"], c["elem"])
            found.append((sig_c15(c), c, "%s: %s is %s%s but the rules %s it" % (c["ty"], c["trait"], "" if got else "not ", "implemented",
                                                                                   "forbid" if got else "require"), prog, got))
    out = run_compile_cases(comp, rlib, deps, "c15")
    for (i, ok, codes, msg) in out:
        c = comp[i]
        if ok != c["expect"]:
            found.append((sig_c15(c), c, "%s %s: compiles=%s expected=%s %s" % (c["kind"], c["ty"], ok, c["expect"], msg[:200]), compile_case_src(c), ok))
        elif not ok and not (set(codes) & REJECT_CODES):
            raise ToolError("probe rejected for an unexpected reason %s: %s" % (codes, msg))
    cov = {"states": stats["distinct"], "transitions": max(stats["states"], 1), "traces_validated_against_impl": len(autos) + len(comp),
           "evaluations": len(autos) + len(comp),
           "distinct_nontrivial": len({(c["ty"], c["trait"], tuple(c["ts"]), c["backend"], c["elem"]) for c in autos + comp}),
           "samples": [{"case": autos[0], "type": type_expr(autos[0])}, {"case": comp[0], "program": compile_case_src(comp[0])[-200:]}],
           "exhaustive": True, "auto_queries": len(autos), "compile_probes": len(comp), "wall_probe_s": round(time.time() - t0, 1)}
    return (found, cov), None


# ----------------------------------------------------------------------------------------------------------------
def feature_case_src(c, f):
    b = c["backend"]
    use = "use any_vec::mem::%s;\n" % b
    body = "pub fn f() { let _v: any_vec::AnyVec<dyn any_vec::traits::None, %s> = any_vec::AnyVec::new_in::<u64>(%s); }" % (BACKEND_TY[b], builder_expr(b))
    return "#![no_std]\n#![allow(unused_imports, dead_code)]\n" + use + body + "\n"

def run_c19_extra(tier, seed):
    """feature-set cases of AnyVecTraits (which backends exist with / without `alloc`) and the freestanding link probe"""
    cases, stats = c15_cases()
    feats = [c for c in cases if c["kind"] == "feature"]
    found = []
    n = 0
    for alloc, fname in ((True, "default"), (False, "noalloc")):
        rlib, deps = build_rlib(alloc)
        if rlib is None:
            return None, deps
        for c in [c for c in feats if c["trait"] == fname]:
            src = os.path.join(PW, "feat_%s_%s.rs" % (fname, c["backend"]))
            os.makedirs(PW, exist_ok=True)
            open(src, "w").write(feature_case_src(c, fname))
            ok, codes, msg = rustc(src, src + ".rmeta", rlib, deps)
            n += 1
            sig = {"pred": "backend_available", "op": "feature", "backend": c["backend"], "features": fname, "config": c["backend"], "profile": "n/a"}
            if ok != c["expect"]:
                found.append((sig, c, "backend %s with feature set %s: compiles=%s expected=%s %s" % (c["backend"], fname, ok, c["expect"], msg[:200]),
                              feature_case_src(c, fname), ok))
            elif not ok and not (set(codes) & REJECT_CODES):
                raise ToolError("feature probe rejected for an unexpected reason %s: %s" % (codes, msg))
    # freestanding program without a global allocator
    nd = os.path.join(PROBES, "nostd")
    env = dict(os.environ, CARGO_NET_OFFLINE="true")
    r = subprocess.run(["cargo", "build", "--release", "--offline"], cwd=nd, stdout=subprocess.PIPE, stderr=subprocess.STDOUT, text=True, env=env)
    case = {"kind": "link", "ty": "nostd_probe", "expect": True}
    sig = {"pred": "links_without_alloc", "op": "link", "config": "Stack", "profile": "release"}
    n += 1
    if r.returncode != 0:
        found.append((sig, case, "a #![no_std] program without a global allocator does not build against default-features = false: " + r.stdout[-400:],
                      open(os.path.join(nd, "src/main.rs")).read(), False))
    else:
        rr = subprocess.run([os.path.join(nd, "target/release/nostd_probe")])
        n += 1
        if rr.returncode != 0:
            sig2 = dict(sig, pred="stack_complete_operation_set")
            found.append((sig2, dict(case, kind="run"), "the freestanding stack-vector program aborted (rc=%s): an operation misbehaved without alloc" % rr.returncode,
                          open(os.path.join(nd, "src/main.rs")).read(), False))
        # negative control of the detector: with the alloc feature forced on, linking must fail for lack of an allocator
        rc = subprocess.run(["cargo", "build", "--release", "--offline", "--features", "force_alloc", "--target-dir", "target-ctl"], cwd=nd,
                            stdout=subprocess.PIPE, stderr=subprocess.STDOUT, text=True, env=env)
        shutil.rmtree(os.path.join(nd, "target-ctl"), ignore_errors=True)
        if rc.returncode == 0 or "no global memory allocator" not in rc.stdout:
            raise ToolError("negative control failed: the link probe does not detect the alloc crate in the graph: " + rc.stdout[-500:])
    cov = {"feature_cases": len(feats), "link_probe": 1, "probes": n, "tlc_cases": stats["distinct"]}
    return (found, cov), None


# ----------------------------------------------------------------------------------------------------------------
# C16: borrow conflicts
B_PRELUDE = '''#![allow(unused, dropping_references, dropping_copy_types, forgetting_references)]
use any_vec::AnyVec;
use any_vec::any_value::*;
use any_vec::traits::Cloneable;
fn mk() -> AnyVec<dyn Cloneable> {
    let mut v: AnyVec<dyn Cloneable> = AnyVec::new::<u64>();
    v.push(AnyValueWrapper::new(1u64)); v.push(AnyValueWrapper::new(2u64)); v.push(AnyValueWrapper::new(3u64));
    v
}
'''
# method -> (creation expression, binding is mut, use statement)
B_METHODS = {
    "get": ("v.get(0).unwrap()", False, "let _ = h.downcast_ref::<u64>();"),
    "at": ("v.at(0)", False, "let _ = h.downcast_ref::<u64>();"),
    "get_mut": ("v.get_mut(0).unwrap()", True, "let _ = h.downcast_mut::<u64>();"),
    "at_mut": ("v.at_mut(0)", True, "let _ = h.downcast_mut::<u64>();"),
    "iter": ("v.iter()", True, "let _ = h.next();"),
    "iter_mut": ("v.iter_mut()", True, "let _ = h.next();"),
    "pop": ("v.pop().unwrap()", False, "let _ = h.downcast_ref::<u64>();"),
    "remove": ("v.remove(0)", False, "let _ = h.downcast_ref::<u64>();"),
    "swap_remove": ("v.swap_remove(0)", False, "let _ = h.downcast_ref::<u64>();"),
    "drain": ("v.drain(..)", True, "let _ = h.next();"),
    "splice": ("v.splice(.., [AnyValueWrapper::new(9u64)])", True, "let _ = h.next();"),
    "as_bytes": ("v.as_bytes()", False, "let _ = h.len();"),
    "as_bytes_mut": ("v.as_bytes_mut()", False, "h[0] = 1;"),
    "spare_bytes_mut": ("v.spare_bytes_mut()", False, "let _ = h.len();"),
    "downcast_ref": ("v.downcast_ref::<u64>().unwrap()", False, "let _ = h.len();"),
    "downcast_mut": ("v.downcast_mut::<u64>().unwrap()", True, "h.push(3);"),
    "lazy_clone": (None, False, "let _ = h.size();"),
    "t_as_slice": ("v.downcast_ref::<u64>().unwrap().as_slice()", False, "let _ = h.len();"),
    "t_iter": ("v.downcast_ref::<u64>().unwrap().iter()", True, "let _ = h.next();"),
    "t_at": ("v.downcast_ref::<u64>().unwrap().at(0)", False, "let _ = *h;"),
    "t_as_mut_slice": ("v.downcast_mut::<u64>().unwrap().as_mut_slice()", False, "h[0] = 1;"),
    "t_iter_mut": ("v.downcast_mut::<u64>().unwrap().iter_mut()", True, "let _ = h.next();"),
    "t_at_mut": ("v.downcast_mut::<u64>().unwrap().at_mut(0)", False, "*h = 1;"),
    "t_drain": ("v.downcast_mut::<u64>().unwrap().drain(..)", True, "let _ = h.next();"),
    "t_splice": ("v.downcast_mut::<u64>().unwrap().splice(.., [9u64])", True, "let _ = h.next();"),
    "t_spare_capacity_mut": ("v.downcast_mut::<u64>().unwrap().spare_capacity_mut()", False, "let _ = h.len();"),
}
B_STMTS = {"mutate_src": "v.clear();", "read_src": "let _n = v.len();", "second_excl": "let _h2 = v.get_mut(0);",
           "second_shared": "let _h2 = v.get(0);", "move_src": "let _w = v;", "drop_src": "drop(v);"}

def borrow_programs(c):
    """(program under test, conflict-free control)"""
    k = c["kind"]
    if k == "vec_loan":
        m, s = c["method"], c["stmt"]
        expr, mut, use = B_METHODS[m]
        if m == "lazy_clone":
            create = "let e = v.at(0); let h = e.lazy_clone();"
        else:
            create = "let %sh = %s;" % ("mut " if mut else "", expr)
        if s == "escape_scope":
            if m == "lazy_clone":
                prog = "pub fn f() { let h; let e; { let mut v = mk(); e = v.at(0); h = e.lazy_clone(); } %s }" % use
            else:
                prog = "pub fn f() { let %sh; { let mut v = mk(); h = %s; } %s }" % ("mut " if mut else "", expr, use)
            ctl = "pub fn f() { let mut v = mk(); %s %s }" % (create, use)
        elif s == "consume_twice":
            prog = "pub fn f() { let mut v = mk(); %s let _a = h.downcast::<u64>(); let _b = h.downcast::<u64>(); }" % create
            ctl = "pub fn f() { let mut v = mk(); %s let _a = h.downcast::<u64>(); }" % create
        else:
            prog = "pub fn f() { let mut v = mk(); %s %s %s }" % (create, B_STMTS[s], use)
            ctl = "pub fn f() { let mut v = mk(); %s %s }" % (create, use)
        return B_PRELUDE + prog + "\n", B_PRELUDE + ctl + "\n"
    if k == "pair":
        import re as _re
        m1, m2 = c["method"], c["stmt"]
        e1, mut1, u1 = B_METHODS[m1]
        e2, mut2, u2 = B_METHODS[m2]
        ren = lambda t, n: _re.sub(r"\bh\b", n, t)
        c1 = "let %sh1 = %s;" % ("mut " if mut1 else "", e1)
        c2 = "let %sh2 = %s;" % ("mut " if mut2 else "", e2)
        prog = "pub fn f() { let mut v = mk(); %s %s %s %s }" % (c1, c2, ren(u1, "h1"), ren(u2, "h2"))
        ctl = "pub fn f() { let mut v = mk(); { %s %s } { %s %s } }" % (c1, ren(u1, "h1"), c2, ren(u2, "h2"))     # one after the other
        return B_PRELUDE + prog + "\n", B_PRELUDE + ctl + "\n"
    if k == "view_reuse":
        vm, mu = c["method"], c["stmt"]
        r = {"at": ("let r = t.at(0);", "let _ = *r;"), "get": ("let r = t.get(0).unwrap();", "let _ = *r;"),
             "at_mut": ("let r = t.at_mut(0);", "*r = 1;"), "get_mut": ("let r = t.get_mut(0).unwrap();", "*r = 1;"),
             "as_slice": ("let r = t.as_slice();", "let _ = r.len();"), "as_mut_slice": ("let r = t.as_mut_slice();", "r[0] = 1;"),
             "iter": ("let mut r = t.iter();", "let _ = r.next();"), "iter_mut": ("let mut r = t.iter_mut();", "let _ = r.next();"),
             "spare_capacity_mut": ("let r = t.spare_capacity_mut();", "let _ = r.len();"),
             "drain": ("let mut r = t.drain(..);", "let _ = r.next();"), "splice": ("let mut r = t.splice(.., [9u64]);", "let _ = r.next();")}[vm]
        mut = {"push": "t.push(5);", "clear": "t.clear();", "remove": "let _x = t.remove(0);"}[mu]
        head = "pub fn f() { let mut v = mk(); let mut t = v.downcast_mut::<u64>().unwrap(); "
        return B_PRELUDE + head + "%s %s %s }\n" % (r[0], mut, r[1]), B_PRELUDE + head + "%s %s }\n" % (r[0], r[1])
    if k == "two_paths":
        p = c["method"]
        head = "pub fn f() { let mut v = mk(); "
        T = {
            "as_mut_slice_twice": ("let mut t = v.downcast_mut::<u64>().unwrap(); let a = t.as_mut_slice(); let b = t.as_mut_slice(); a[0] = 1; b[0] = 2; }",
                                   "let mut t = v.downcast_mut::<u64>().unwrap(); let a = t.as_mut_slice(); a[0] = 1; let b = t.as_mut_slice(); b[0] = 2; }"),
            "get_mut_twice_via_view": ("let mut t = v.downcast_mut::<u64>().unwrap(); let a = t.get_mut(0).unwrap(); let b = t.get_mut(0).unwrap(); *a = 1; *b = 2; }",
                                       "let mut t = v.downcast_mut::<u64>().unwrap(); let a = t.get_mut(0).unwrap(); *a = 1; let b = t.get_mut(0).unwrap(); *b = 2; }"),
            "element_downcast_mut_twice": ("let mut e = v.at_mut(0); let a = e.downcast_mut::<u64>().unwrap(); let b = e.downcast_mut::<u64>().unwrap(); *a = 1; *b = 2; }",
                                           "let mut e = v.at_mut(0); let a = e.downcast_mut::<u64>().unwrap(); *a = 1; let b = e.downcast_mut::<u64>().unwrap(); *b = 2; }"),
            "element_downcast_ref_then_mut": ("let mut e = v.at_mut(0); let a = e.downcast_ref::<u64>().unwrap(); let b = e.downcast_mut::<u64>().unwrap(); *b = 2; let _ = *a; }",
                                              "let mut e = v.at_mut(0); let a = e.downcast_ref::<u64>().unwrap(); let _ = *a; let b = e.downcast_mut::<u64>().unwrap(); *b = 2; }"),
            "iter_mut_clone": ("let mut i1 = v.iter_mut(); let mut i2 = i1.clone(); let mut a = i1.next().unwrap(); let mut b = i2.next().unwrap(); *a.downcast_mut::<u64>().unwrap() = 1; *b.downcast_mut::<u64>().unwrap() = 2; }",
                               "let mut i1 = v.iter_mut(); let mut a = i1.next().unwrap(); *a.downcast_mut::<u64>().unwrap() = 1; }"),
            "lazy_clone_outlives_handle": ("let l; { let e = v.at(0); l = e.lazy_clone(); } let _ = l.size(); }",
                                           "let e = v.at(0); let l = e.lazy_clone(); let _ = l.size(); }"),
            "lazy_clone_survives_consumption": ("let h = v.pop().unwrap(); let l = h.lazy_clone(); let _x = h.downcast::<u64>(); let _ = l.size(); }",
                                                "let h = v.pop().unwrap(); let l = h.lazy_clone(); let _ = l.size(); let _x = h.downcast::<u64>(); }"),
        }[p]
        return B_PRELUDE + head + T[0] + "\n", B_PRELUDE + head + T[1] + "\n"
    if k == "needs_mut":
        m = c["method"]
        if c["path"] == "erased":
            call = {"push": "r.push(AnyValueWrapper::new(5u64));", "insert": "r.insert(0, AnyValueWrapper::new(5u64));", "pop": "let _ = r.pop();",
                    "remove": "let _ = r.remove(0);", "swap_remove": "let _ = r.swap_remove(0);", "drain": "let _ = r.drain(..);",
                    "splice": "let _ = r.splice(.., [AnyValueWrapper::new(9u64)]);", "clear": "r.clear();", "get_mut": "let _ = r.get_mut(0);",
                    "at_mut": "let _ = r.at_mut(0);", "iter_mut": "let _ = r.iter_mut();", "as_bytes_mut": "let _ = r.as_bytes_mut();",
                    "spare_bytes_mut": "let _ = r.spare_bytes_mut();", "reserve": "r.reserve(1);", "reserve_exact": "r.reserve_exact(1);",
                    "shrink_to_fit": "r.shrink_to_fit();", "shrink_to": "r.shrink_to(0);", "downcast_mut": "let _ = r.downcast_mut::<u64>();",
                    "set_len": "unsafe { r.set_len(0); }", "get_unchecked_mut": "let _ = unsafe { r.get_unchecked_mut(0) };",
                    "downcast_mut_unchecked": "let _ = unsafe { r.downcast_mut_unchecked::<u64>() };",
                    "push_unchecked": "unsafe { r.push_unchecked(AnyValueWrapper::new(5u64)); }",
                    "insert_unchecked": "unsafe { r.insert_unchecked(0, AnyValueWrapper::new(5u64)); }"}[m]
            prog = "pub fn f() { let mut v = mk(); let r = &v; %s }" % call
            ctl = "pub fn f() { let mut v = mk(); let r = &mut v; %s }" % call
        else:
            call = {"push": "t.push(5);", "insert": "t.insert(0, 5);", "pop": "let _ = t.pop();", "remove": "let _ = t.remove(0);",
                    "swap_remove": "let _ = t.swap_remove(0);", "drain": "let _ = t.drain(..);", "splice": "let _ = t.splice(.., [9u64]);",
                    "clear": "t.clear();", "get_mut": "let _ = t.get_mut(0);", "at_mut": "let _ = t.at_mut(0);", "iter_mut": "let _ = t.iter_mut();",
                    "as_mut_slice": "let _ = t.as_mut_slice();", "spare_capacity_mut": "let _ = t.spare_capacity_mut();", "reserve": "t.reserve(1);",
                    "reserve_exact": "t.reserve_exact(1);", "shrink_to_fit": "t.shrink_to_fit();", "shrink_to": "t.shrink_to(0);",
                    "set_len": "unsafe { t.set_len(0); }", "get_unchecked_mut": "let _ = unsafe { t.get_unchecked_mut(0) };",
                    "as_mut_ptr": "let _ = t.as_mut_ptr();"}[m]
            prog = "pub fn f() { let mut v = mk(); let t = v.downcast_ref::<u64>().unwrap(); %s }" % call
            ctl = "pub fn f() { let mut v = mk(); let mut t = v.downcast_mut::<u64>().unwrap(); %s }" % call
        return B_PRELUDE + prog + "\n", B_PRELUDE + ctl + "\n"
    if k == "outlives":
        p = c["method"]
        head = "pub fn f() { let mut v = mk(); "
        T = {
            "drain_item_outlives_temp_iterator": ("let e = v.drain(0..1).next().unwrap(); let _ = e.downcast::<u64>(); }",
                                                  "let mut d = v.drain(0..1); let e = d.next().unwrap(); let _ = e.downcast::<u64>(); drop(d); }"),
            "splice_item_outlives_temp_iterator": ("let e = v.splice(0..1, [AnyValueWrapper::new(9u64)]).next().unwrap(); let _ = e.downcast::<u64>(); }",
                                                   "let mut d = v.splice(0..1, [AnyValueWrapper::new(9u64)]); let e = d.next().unwrap(); let _ = e.downcast::<u64>(); drop(d); }"),
            "drain_item_after_drop_iterator": ("let mut d = v.drain(0..1); let e = d.next().unwrap(); drop(d); let _ = e.downcast::<u64>(); }",
                                               "let mut d = v.drain(0..1); let e = d.next().unwrap(); let _ = e.downcast::<u64>(); drop(d); }"),
        }[p]
        return B_PRELUDE + head + T[0] + "\n", B_PRELUDE + head + T[1] + "\n"
    raise ToolError("bad borrow case " + json.dumps(c))

BORROW_CODES = {"E0596", "E0499", "E0502", "E0505", "E0506", "E0597", "E0382", "E0716", "E0521", "E0515", "E0503", "E0599", "E0713"}
BORROW_CFG = "INIT Init\nNEXT Next\nINVARIANT EmitInv RuleSanity\nCHECK_DEADLOCK FALSE\n"

# every public method of AnyVec / AnyVecTyped known when the loan table (AnyVecBorrow.tla) and the templates were written: those that
# hand out something borrowed are rows of the table; a NEW public method makes the table incomplete, which must be loud
KNOWN_METHODS = set("""as_bytes as_bytes_mut as_mut_ptr as_mut_slice as_ptr as_slice at at_mut capacity clear clone_empty clone_empty_in
downcast_mut downcast_mut_unchecked downcast_ref downcast_ref_unchecked drain element_clone element_drop element_layout element_typeid
from_raw_parts get get_mut get_unchecked get_unchecked_mut insert insert_unchecked into_raw_parts is_empty iter iter_mut len new new_in pop
push push_unchecked remove reserve reserve_exact set_len shrink_to shrink_to_fit spare_bytes_mut spare_capacity_mut splice swap_remove
with_capacity with_capacity_in""".split())
def scan_methods():
    repo = os.environ.get("VERIF_REPO", "/repo")
    found = set()
    for f in ("src/any_vec.rs", "src/any_vec_typed.rs"):
        try:
            txt = open(os.path.join(repo, f)).read()
        except FileNotFoundError:
            continue
        found |= set(re.findall(r"pub (?:unsafe )?fn ([a-z_0-9]+)", txt))
    return found

def run_c16(tier, seed):
    t0 = time.time()
    new_methods = scan_methods() - KNOWN_METHODS
    if new_methods:
        raise ToolError("the C16 loan table does not know these public methods of AnyVec/AnyVecTyped: %s - add them to AnyVecBorrow.tla "
                        "(and probes.B_METHODS if they hand out borrows) before this check can be trusted" % sorted(new_methods))
    cases, stats = tlc_cases("AnyVecBorrow", BORROW_CFG, "borrow")
    rlib, deps = build_rlib(True)
    if rlib is None:
        return None, deps
    os.makedirs(PW, exist_ok=True)
    def one(ic):
        i, c = ic
        prog, ctl = borrow_programs(c)
        sp, sc = os.path.join(PW, "b%d.rs" % i), os.path.join(PW, "b%dc.rs" % i)
        open(sp, "w").write(prog); open(sc, "w").write(ctl)
        return i, rustc(sp, sp + ".rmeta", rlib, deps), rustc(sc, sc + ".rmeta", rlib, deps)
    with ThreadPoolExecutor(max_workers=14) as ex:
        out = list(ex.map(one, enumerate(cases)))
    found = []
    for i, (ok, codes, msg), (cok, ccodes, cmsg) in out:
        c = cases[i]
        prog, ctl = borrow_programs(c)
        sig = {"pred": "conflict_rejected", "kind": c["kind"], "method": c["method"], "stmt": c["stmt"], "loan": c["loan"], "op": c["kind"], "config": "heap", "profile": "n/a"}
        if not cok:
            found.append((dict(sig, pred="control_accepted"), c, "the conflict-free control program is rejected: %s %s" % (ccodes, cmsg[:200]), ctl, False))
            continue
        if c["expect"] == "reject":
            if ok:
                found.append((sig, c, "a program that %s compiles" % describe_borrow(c), prog, True))
            elif not (set(codes) & BORROW_CODES):
                raise ToolError("borrow probe rejected for an unexpected reason %s: %s\n%s" % (codes, msg, prog))
        else:
            if not ok:
                found.append((dict(sig, pred="legal_use_accepted"), c, "a legal program is rejected: %s %s" % (codes, msg[:200]), prog, False))
    cov = {"states": stats["distinct"], "transitions": max(stats["states"], 1), "traces_validated_against_impl": 2 * len(cases),
           "evaluations": 2 * len(cases), "distinct_nontrivial": len({(c["kind"], c["method"], c["stmt"]) for c in cases}),
           "samples": [{"case": cases[0], "program": borrow_programs(cases[0])[0][len(B_PRELUDE):]}, {"case": cases[-1], "program": borrow_programs(cases[-1])[0][len(B_PRELUDE):]}],
           "exhaustive": True, "programs": 2 * len(cases), "wall_probe_s": round(time.time() - t0, 1)}
    return (found, cov), None

def describe_borrow(c):
    if c["kind"] == "vec_loan":
        return "performs `%s` while the handle from `%s` (%s loan) is alive" % (c["stmt"], c["method"], c["loan"])
    if c["kind"] == "pair":
        return "keeps the handles from `%s` and `%s` alive at the same time" % (c["method"], c["stmt"])
    if c["kind"] == "view_reuse":
        return "reuses a borrow obtained by `%s` through a mutable typed view after `%s` through the same view" % (c["method"], c["stmt"])
    if c["kind"] == "needs_mut":
        return "calls the mutating method `%s` through a shared %s" % (c["method"], "reference to the vector" if c["path"] == "erased" else "typed view (AnyVecRef)")
    return "does `%s`" % c["method"]


# ----------------------------------------------------------------------------------------------------------------
def _apalache_inductive(pid, module, what):
    """unbounded, design-level argument: Apalache discharges that <module>!IndInv is inductive (Init => IndInv; IndInv /\\ Next => IndInv').
    Independent of /repo (it is about the specification); reported in the evidence, never turns the check red."""
    wd = os.path.join(vlib.WORK, "apalache-" + pid.lower())
    os.makedirs(wd, exist_ok=True)
    shutil.copy(os.path.join(vlib.SPEC, module + ".tla"), wd)
    done = 0
    notes = []
    for args in (["--init=Init", "--inv=IndInv", "--length=0"], ["--init=IndInit", "--inv=IndInv", "--length=1"]):
        try:
            r = subprocess.run(["timeout", "300", "apalache-mc", "check"] + args + [module + ".tla"], cwd=wd, stdout=subprocess.PIPE, stderr=subprocess.STDOUT, text=True)
            ok = "EXITCODE: OK" in r.stdout
        except Exception as e:
            ok = False; notes.append(str(e))
        done += ok
        if not ok:
            notes.append("apalache %s did not return OK" % " ".join(args))
    shutil.rmtree(wd, ignore_errors=True)
    for n in notes:
        print("NOTE (%s, unbounded %s argument): %s" % (pid, what, n))
    cov = {"probes": 0, "apalache_inductive_invariant": {"module": module + ".tla", "obligations": 2, "discharged": done,
                                                         "cmd": "apalache-mc check --init=Init --inv=IndInv --length=0 ; --init=IndInit --inv=IndInv --length=1"}}
    return ([], cov), None

def run_c14_extra(tier, seed):
    return _apalache_inductive("C14", "IterCursor", "cursor")

def run_c10_extra(tier, seed):
    return _apalache_inductive("C10", "CapArith", "growth")


# ----------------------------------------------------------------------------------------------------------------
def run_c11_extra(tier, seed):
    """Stack<SIZE> capacity formula and StackN<N,SIZE> build rule on a grid; observations from the harness, judged by StackGrid.tla"""
    found, n = [], 0
    for profile in (("release",) if tier == "quick" else ("release", "dev")):
        binp, blog = vlib.build_harness(profile, True)
        if binp is None:
            raise ToolError("harness does not build: " + blog[-1500:])
        r = subprocess.run([binp, "buildgrid"], stdout=subprocess.PIPE, stderr=subprocess.STDOUT, text=True)
        if r.returncode != 0:
            raise ToolError("buildgrid failed: " + r.stdout[-500:])
        wd = os.path.join(vlib.WORK, "stackgrid")
        os.makedirs(wd, exist_ok=True)
        shutil.copy(os.path.join(vlib.SPEC, "StackGrid.tla"), wd)
        grid = os.path.join(wd, "grid.ndjson")
        lines = [l for l in r.stdout.split("\n") if l.startswith("{")]
        open(grid, "w").write("\n".join(lines) + "\n")
        open(os.path.join(wd, "G.cfg"), "w").write("INIT Init\nNEXT Next\nINVARIANT Report\nCHECK_DEADLOCK FALSE\n")
        t = subprocess.run(["timeout", "300", "tlc", "-workers", "1", "-metadir", os.path.join(wd, "md"), "-cleanup", "-noGenerateSpecTE", "-config", "G.cfg", "StackGrid.tla"],
                           cwd=wd, stdout=subprocess.PIPE, stderr=subprocess.STDOUT, text=True, env=dict(os.environ, GRID=grid))
        if t.returncode != 0 or "Error:" in t.stdout:
            raise ToolError("TLC failed on StackGrid: " + t.stdout[-1500:])
        n += len(lines)
        for line in t.stdout.split("\n"):
            if line.startswith('"{'):
                j = json.loads(json.loads(line))
                o = j["obs"]
                sig = {"pred": "capacity_formula" if o["kind"] == "stack" else "stackn_build_panics_iff", "op": "build", "backend": o["kind"], "esz": o["esz"],
                       "config": "%s<%s%d>" % (o["kind"], ("%d," % o["n"]) if o["kind"] == "stackn" else "", o["size"]), "profile": profile}
                found.append((sig, o, "%s with element size %d: observed %s capacity %s, the rule gives %s capacity %s"
                              % (sig["config"], o["esz"], o["res"], o["cap"], j["expect"]["res"], j["expect"]["cap"]), json.dumps(j), o["res"]))
        shutil.rmtree(wd, ignore_errors=True)
    return (found, {"probes": n, "stack_grid_points": n}), None
