#!/bin/sh
# usage: tools/tryseed.sh <patch.diff> <Cxx> [<Cxx>...]   -- apply a seeded change to /repo, run quick checks, undo
P="$(realpath $1)"; shift
cd /repo && git apply "$P" || { echo "PATCH DOES NOT APPLY"; exit 3; }
cd /verif
for c in "$@"; do
  echo "=== $c with $(basename $(dirname $P))/$(basename $P)"
  ./check $c quick > /tmp/tryseed.$c.out 2>&1; rc=$?
  echo "rc=$rc  $(grep -c '^VIOLATION' /tmp/tryseed.$c.out) violation lines"; grep -A1 '^VIOLATION' /tmp/tryseed.$c.out | head -6 | cut -c1-260; grep -E "TOOL ERROR" -A3 /tmp/tryseed.$c.out | head -5 | cut -c1-300
done
git -C /repo checkout -- . 
