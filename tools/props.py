"""Which bounded model, which harness configurations and which non-triviality rule serve which property."""
import json
import probes

ELEM_ALPHA = ["push", "insert", "pop", "remove", "swap_remove", "typed", "clear", "get", "mutate", "hmutate", "ext_drop", "forget"]

def m_elem(tier):
    return dict(alpha=ELEM_ALPHA, MaxLen=3 if tier == "quick" else 4, MaxExt=1, MaxDepth=40,
                srcs=["wrapper", "raw", "typed", "typeless", "sizeless"])

ALL_FORMS = ["x..y", "x..=y", "..y", "..=y", "x..", "..", "x<..y", "x<..=y", "x<.."]
def m_range(tier):
    # drain / splice on vector a (b is a sink/source partner), every RangeBounds form, every (s,e) incl. invalid ones,
    # every front/back consumption, every per-item sink incl. keep (item outlives the iterator) and forget
    return dict(alpha=["push", "drain", "splice", "keep", "forget", "ext_drop"], MaxLen=3 if tier == "quick" else 4, MaxLenB=1,
                MaxExt=1, MaxOut=1, MaxRepl=2 if tier == "quick" else 3, OneHandle=True, forms=ALL_FORMS,
                srcs=["typed", "wrapper", "raw"], timeout=6000)
def m_iter(tier):
    return dict(alpha=["push", "iter", "mutate"], MaxLen=3 if tier == "quick" else 5, MaxLenB=0, MaxIters=2 if tier == "quick" else 3,
                srcs=["typed"], OneHandle=True)

def m_xchg(tier):
    # three vectors exchanging elements through removal handles and drained items
    return dict(vecs=["a", "b", "c"], alpha=["push", "pop", "remove", "swap_remove", "clear", "drain", "ext_drop", "forget"],
                MaxLen=2, MaxLenB=2 if tier != "quick" else 1, MaxExt=1, MaxOut=0, MaxRepl=0, OneHandle=True, forms=["x..y"],
                srcs=["wrapper"], timeout=6000)

def m_shift(tier):
    # layout sweep: one long vector, only the byte-moving paths (erased insert/remove/swap_remove, drain/splice tail moves),
    # so that the shifted byte counts cross the word (8) and memmove (128) thresholds of the copy helpers on every layout
    return dict(alpha=["push", "insert", "remove", "swap_remove", "drain", "splice"], MaxLen=6 if tier == "quick" else 9, MaxLenB=0,
                MaxExt=0, MaxOut=0, MaxRepl=2, OneHandle=True, forms=["x..y"], srcs=["raw", "typed", "sizeless"], sinks=["drop"], timeout=6000)
LAYOUTS_Q = ["heap1n", "heap3n", "heap12d", "heap24d", "heap0d"]
LAYOUTS_T = ["heap1n", "heap2d", "heap3n", "heap8d", "heap12d", "heap16d", "heap24d", "heap32d", "heap64n", "heap160", "heap160a32", "heap0d", "heap0n"]

def m_cap(tier):
    # one vector: every (len, capacity) state up to the bound x every capacity request 0..bound and near usize::MAX
    return dict(cfg="CfgHeapCap", alpha=["push", "pop", "clear", "cap", "recreate"], MaxLen=3 if tier == "quick" else 4, MaxLenB=0,
                MaxCap=6 if tier == "quick" else 9, MaxExt=0, srcs=["typed", "raw"], sinks=["drop"], OneHandle=True, timeout=6000)
def m_fixed(tier):
    # fixed capacity 3 (Stack<3*size>, StackN<3,..>): operations whose result length is <= cap, == cap and == cap+1
    return dict(cfg="CfgFixed3", alpha=["push", "insert", "pop", "remove", "clear", "drain", "splice", "ext_drop"] + ([] if tier == "quick" else ["swap_remove", "forget"]),
                MaxLen=3, MaxLenB=3, MaxExt=1, MaxRepl=2, OneHandle=True, forms=["x..y"],
                srcs=["wrapper", "raw"] if tier == "quick" else ["wrapper", "raw", "typed"], timeout=6000)
def m_fixed2(tier):
    return dict(m_fixed(tier), cfg="CfgFixed2", MaxLen=2, MaxLenB=2)

def m_outlive(tier):
    # items yielded by drain/splice that outlive their iterator (recorded finding): small dedicated model
    return dict(alpha=["push", "drain", "splice", "keep", "outlive", "forget"], MaxLen=2 if tier == "quick" else 3, MaxLenB=1, MaxExt=1, MaxOut=1,
                MaxRepl=1, OneHandle=True, forms=["x..y"], srcs=["typed", "wrapper"], timeout=6000)

def m_clone(tier):
    # clone / clone_empty(_in) on Cloneable constraint sets, followed by every single operation on either vector
    return dict(alpha=["push", "pop", "remove", "clear", "mutate", "clone", "ce_probe", "ext_drop"],
                MaxLen=2 if tier == "quick" else 3, MaxLenB=2 if tier == "quick" else 3, MaxExt=1,
                OneHandle=True, srcs=["wrapper"], sinks=["drop", "push", "ext"], timeout=6000)
def m_long(tier):
    # length-dependent code paths (block-wise loops, word-wise copies): vectors of up to 9 / 12 elements, whole-vector operations only
    return dict(alpha=["push", "clear", "clone", "drain"], MaxLen=9 if tier == "quick" else 12, MaxLenB=9 if tier == "quick" else 12, MaxExt=0, MaxOut=0, MaxRepl=0,
                OneHandle=True, forms=[".."], srcs=["typed"], sinks=["drop"], timeout=6000)
def m_lazy(tier):
    # lazy clones of element references, removal handles and kept drained items; depth 1..3; 0..k consumptions; every sink
    return dict(alpha=["push", "pop", "lazy", "drain", "keep", "hmutate", "mutate"], MaxLen=2, MaxLenB=1, MaxExt=1, MaxOut=1,      # (MaxLenB = 2 or MaxLen = 3 give 8-9 million transitions: too many to replay per configuration)
                MaxLazyDepth=3, MaxLazyN=2 if tier == "quick" else 3, OneHandle=True, forms=["x..y"], srcs=["wrapper"], sinks=["drop"], timeout=6000)
def m_clonefixed(tier):
    return dict(m_clone(tier), cfg="CfgFixed3", MaxLen=3, MaxLenB=3, MaxLazyDepth=1, MaxLazyN=2, alpha=["push", "pop", "clear", "clone", "ce_probe", "lazy"])

def m_raw(tier):
    # into_raw_parts / RawParts::clone / from_raw_parts round trips, repeated and interleaved with every element-wise operation
    return dict(alpha=["push", "insert", "pop", "remove", "swap_remove", "clear", "get", "mutate", "raw", "ext_drop", "typed"],
                MaxLen=2 if tier == "quick" else 3, MaxLenB=1, MaxExt=1, OneHandle=True, srcs=["wrapper", "raw"], sinks=["drop", "push", "ext"], timeout=6000)
def m_rawempty(tier):
    return dict(cfg="CfgFixed0", alpha=["push", "insert", "pop", "clear", "get", "raw"], MaxLen=1, MaxLenB=1, MaxExt=1, OneHandle=True, srcs=["wrapper", "raw"], sinks=["drop"])
def m_wrong(tier):
    # values of another runtime type offered to every checked entry point; downcast queries on every object kind
    return dict(alpha=["push", "pop", "wrong", "downcast", "clear"], MaxLen=2 if tier == "quick" else 3, MaxLenB=1, MaxExt=0, OneHandle=True,
                srcs=["wrapper"], sinks=["drop"], timeout=6000)
def m_swap(tier):
    return dict(alpha=["push", "pop", "swap", "ext_drop", "mutate", "hmutate"], MaxLen=2 if tier == "quick" else 3, MaxLenB=2, MaxExt=1, OneHandle=True,
                srcs=["wrapper"], sinks=["drop"], timeout=6000)
def m_spare(tier):
    return dict(cfg="CfgHeapCap", alpha=["push", "pop", "spare", "cap", "clear"], MaxLen=3 if tier == "quick" else 4, MaxLenB=0, MaxCap=4 if tier == "quick" else 6, MaxExt=0,
                srcs=["typed"], sinks=["drop"], OneHandle=True, timeout=6000)
def m_sparefixed(tier):
    return dict(cfg="CfgFixed3", alpha=["push", "pop", "spare", "clear"], MaxLen=3, MaxLenB=0, MaxExt=0, srcs=["typed"], sinks=["drop"], OneHandle=True)

def m_liar(tier):
    # splice whose replacement iterator reports a length off by -2..+2
    return dict(alpha=["push", "splice", "liar", "ext_drop"], MaxLen=3, MaxLenB=0, MaxExt=1, MaxRepl=3, OneHandle=True, forms=["x..y"],
                srcs=["wrapper", "raw"] + ([] if tier == "quick" else ["typed"]), sinks=["drop", "ext"], timeout=6000)

def m_lazyf(tier):
    # reduced lazy model for fault enumeration (every clone invocation made to panic)
    return dict(m_lazy(tier), MaxLazyDepth=1, MaxLazyN=2, alpha=["push", "pop", "lazy", "drain", "keep"])

def m_place(tier):
    return dict(alpha=["place", "push"], MaxLen=1, MaxLenB=0, MaxExt=0, srcs=["typed"], sinks=["drop"], OneHandle=True)
def m_amort(tier):
    # growth through repeated push is amortised: one run of PushManyN pushes, then ordinary operations on the long vector
    return dict(alpha=["push_many", "clear"], MaxLen=0, MaxLenB=0, MaxExt=0, srcs=["raw"], sinks=["drop"], OneHandle=True,
                PushManyN=60000, invariants=["HandleInv"])

def m_elem2(tier):
    # the whole element-wise alphabet on short vectors: cheap enough to run on EVERY element layout
    return dict(m_elem(tier), MaxLen=2, MaxLenB=1 if tier == "quick" else 2)

MODELS = {
    "elem2": m_elem2,
    "place": m_place, "amort": m_amort,
    "lazyf": m_lazyf,
    "liar": m_liar,
    "raw": m_raw, "rawempty": m_rawempty, "wrong": m_wrong, "swap": m_swap, "spare": m_spare, "sparefixed": m_sparefixed,
    "clone": m_clone, "long": m_long,
    "lazy": m_lazy,
    "clonefixed": m_clonefixed,
    "outlive": m_outlive,
    "cap": m_cap,
    "fixed": m_fixed,
    "fixed2": m_fixed2,
    "shift": m_shift,
    "xchg": m_xchg,
    "elem": m_elem,
    "range": m_range,
    "iter": m_iter,
}

R, D = "release", "dev"
def cfgs(names, profiles=(R,), alloc=True):
    return [(n, p, alloc) for n in names for p in profiles]

def rnd(tier, configs, nvecs=2, profiles=None, faultpct=0):
    """direction B: long random histories on large vectors (seeded by VERIF_SEED); faultpct > 0: that share of the steps runs with
    the k-th invocation of user code panicking (judged by JudgeFault, the history goes on from the adopted state)"""
    q = tier == "quick"
    return dict(random=dict(traces=4 if q else 24, steps=2500 if q else 12000, maxlen=120 if q else 400, nvecs=nvecs, faultpct=faultpct),
                configs=cfgs(configs, profiles or ((R,) if q else (R, D))))

def c01(tier):
    if tier == "quick":
        return [dict(model="elem", configs=cfgs(["heap8d", "heap3n", "heap0d", "heap8sy"], (R,)) + cfgs(["heap160"], (D,))),
                dict(model="shift", configs=cfgs(LAYOUTS_Q, (R,))), dict(model="elem2", configs=cfgs(LAYOUTS_T, (R,))), rnd(tier, ["heap8d", "heap12d"])]
    return [dict(model="elem", configs=cfgs(["heap8d", "heap3n", "heap160", "heap0d", "heap12d", "heap1n"], (R, D))
                 + cfgs(["heap8s", "heap8y", "heap8sy", "heap8c", "heap8cs", "heap8cy", "heap8css", "stack8sy", "fence8d"], (R,))),
            dict(model="shift", configs=cfgs(LAYOUTS_T, (R, D))), dict(model="elem2", configs=cfgs(LAYOUTS_T, (R, D))),
            rnd(tier, ["heap8d", "heap24d", "heap12d", "heap160", "fence8d", "heap0d"], nvecs=3)]

def c02(tier):
    if tier == "quick":
        return [dict(model="range", configs=cfgs(["heap8d"], (R, D)) + cfgs(["heap3n", "heap0d"], (R,))),
                dict(model="shift", configs=cfgs(LAYOUTS_Q, (R,))), dict(model="outlive", configs=cfgs(["heap8d"], (R,))), rnd(tier, ["heap8d", "heap12d"])]
    return [dict(model="range", configs=cfgs(["heap8d", "heap3n", "heap160", "heap0d", "heap12d"], (R, D))),
            dict(model="shift", configs=cfgs(LAYOUTS_T, (R, D))), dict(model="outlive", configs=cfgs(["heap8d", "heap160"], (R, D))),
            rnd(tier, ["heap8d", "heap24d", "heap12d", "heap160", "fence8d", "stack24x3"], nvecs=3)]
def c14(tier):
    if tier == "quick":
        return [dict(model="iter", configs=cfgs(["heap8d"], (R,))), dict(model="range", configs=cfgs(["heap8d"], (R,)))]
    return [dict(model="iter", configs=cfgs(["heap8d", "heap3n", "heap0d"], (R, D))), dict(model="range", configs=cfgs(["heap8d", "heap160"], (R, D)))]

def c03(tier):
    if tier == "quick":
        return [dict(model="elem", configs=cfgs(["heap8d", "heap0d"], (R,))), dict(model="range", configs=cfgs(["heap8d", "heap0d"], (R,))),
                dict(model="xchg", configs=cfgs(["heap8d", "heap0d"], (R,))), dict(model="shift", configs=cfgs(["heap0d", "heap12d", "heap1n"], (R,))),
                dict(model="long", configs=cfgs(["heap8c"], (R,))), rnd(tier, ["heap8d"], nvecs=3)]
    return [dict(model="elem", configs=cfgs(["heap8d", "heap160", "heap0d", "heap3n"], (R, D)) + cfgs(["heap8sy", "heap8cs", "heap8cy", "heap8css"], (R,))),
            dict(model="range", configs=cfgs(["heap8d", "heap160", "heap0d"], (R, D)) + cfgs(["heap8sy", "heap8css"], (R,))),
            dict(model="xchg", configs=cfgs(["heap8d", "heap160", "heap0d"], (R, D))), dict(model="long", configs=cfgs(["heap8c", "heap0c"], (R, D))),
            rnd(tier, ["heap8d", "heap160", "heap0d", "fence24d"], nvecs=3)]
def c07(tier):
    if tier == "quick":
        return [dict(model="elem", configs=cfgs(["heap8d", "heap3n"], (R,))), dict(model="range", configs=cfgs(["heap8d", "heap3n"], (R,)))]
    return [dict(model="elem", configs=cfgs(["heap8d", "heap160", "heap3n", "heap0d"], (R, D))), dict(model="range", configs=cfgs(["heap8d", "heap160", "heap3n", "heap0d"], (R, D)))]
def c13(tier):
    if tier == "quick":
        return [dict(model="elem", configs=cfgs(["heap8d", "heap3n"], (R,))), dict(model="iter", configs=cfgs(["heap8d", "heap3n"], (R,))),
                dict(model="swap", configs=cfgs(["heap8d", "heap3n", "heap12d", "heap160"], (R,))), rnd(tier, ["heap12d"])]
    return [dict(model="elem", configs=cfgs(["heap8d", "heap3n", "heap160", "heap0d"], (R, D))), dict(model="iter", configs=cfgs(["heap8d", "heap3n", "heap160"], (R, D))),
            dict(model="swap", configs=cfgs(["heap8d", "heap3n", "heap160", "heap12d", "stack24x3"], (R, D)))]

def c06(tier):
    if tier == "quick":
        return [dict(model="elem", faults=True, configs=cfgs(["heap8d"], (R,))), dict(model="range", faults=True, configs=cfgs(["heap8d"], (R,))),
                dict(model="clone", faults=True, configs=cfgs(["heap8c"], (R,))), dict(model="lazyf", faults=True, configs=cfgs(["heap8c"], (R,))),
                dict(model="liar", faults=True, configs=cfgs(["heap8d", "fence8d"], (R,))), rnd(tier, ["heap8c", "stack8c"], faultpct=30)]
    return [rnd(tier, ["heap8c", "heap8d", "heap160", "stack8c", "fence24d", "heap0d"], nvecs=3, faultpct=30),
            dict(model="elem", faults=True, configs=cfgs(["heap8d", "heap160", "fence8d"], (R, D))), dict(model="range", faults=True, configs=cfgs(["heap8d", "heap160", "fence8d"], (R, D))),
            dict(model="clone", faults=True, configs=cfgs(["heap8c", "fence24d", "heap160"], (R, D))), dict(model="lazyf", faults=True, configs=cfgs(["heap8c", "heap160", "heap3c"], (R, D))),
            dict(model="clonefixed", faults=True, configs=cfgs(["stackn3", "stack8c"], (R,))), dict(model="fixed", faults=True, configs=cfgs(["stack8x3p"], (R,))),
            dict(model="liar", faults=True, configs=cfgs(["heap8d", "fence8d", "heap160", "stack24x3"], (R, D)))]

def c10(tier):
    if tier == "quick":
        return [dict(model="cap", configs=cfgs(["heap8d", "heap0d", "fence8d", "heap1n", "fenceover8d"], (R,)) + cfgs(["heap3n"], (D,))),
                dict(model="amort", shards=1, configs=cfgs(["heap8n", "fence8d", "heap0d"], (R,)))]
    return [dict(model="cap", configs=cfgs(["heap8d", "heap0d", "heap0n", "heap3n", "heap160", "fence8d", "fence3n", "fence0d", "fence160"], (R, D))),
            dict(model="amort", shards=1, configs=cfgs(["heap8n", "fence8d", "heap0d", "heap160"], (R, D)))]
def c11(tier):
    if tier == "quick":
        return [dict(model="fixed", configs=cfgs(["stack8x3p", "stackn3"], (R,))), dict(model="elem", configs=cfgs(["stack24x3", "stack0d"], (R,))),
                dict(model="clonefixed", configs=cfgs(["stack8c"], (R,)))]
    return [dict(model="fixed", configs=cfgs(["stack24x3", "stackn3", "stack8x3m", "stack8x3p"], (R, D))),
            dict(model="fixed2", configs=cfgs(["stack8x2p", "stackn2"], (R, D))),
            dict(model="elem", configs=cfgs(["stack24x3", "stackn3", "stack0d"], (R, D))), dict(model="range", configs=cfgs(["stack24x3", "stack0d"], (R,))),
            dict(model="clonefixed", configs=cfgs(["stack8c", "stackn3"], (R, D)))]
def c05(tier):
    if tier == "quick":
        return [dict(model="elem", configs=cfgs(["fence8d", "fence3n", "heap8d"], (R,))), dict(model="range", configs=cfgs(["fence8d", "heap8d"], (R,))),
                dict(model="shift", configs=cfgs(["fence24d", "fence3n", "fence160"], (R,))), dict(model="cap", configs=cfgs(["fence8d", "fence0d", "heap8d", "heap160", "fenceover8d"], (R,))),
                rnd(tier, ["fence8d", "fence24d"])]
    return [dict(model="elem", configs=cfgs(["fence8d", "fence3n", "fence24d", "fence160", "fence0d", "heap8d"], (R, D))),
            dict(model="range", configs=cfgs(["fence8d", "fence3n", "fence24d", "fence160", "heap8d"], (R, D))),
            dict(model="shift", configs=cfgs(["fence8d", "fence3n", "fence24d", "fence160", "fence0d"], (R, D))),
            dict(model="cap", configs=cfgs(["fence8d", "fence3n", "fence0d", "fence160"], (R, D))), rnd(tier, ["fence8d", "fence24d", "fence3n", "fence160", "heap8d"], nvecs=3)]
def c18(tier):
    if tier == "quick":
        return [dict(model="cap", configs=cfgs(["heap8d", "heap0d", "heap3n", "heap1n"], (R,))), dict(model="elem", configs=cfgs(["heap8d"], (R,))),
                dict(model="range", configs=cfgs(["heap8d"], (R,))), rnd(tier, ["heap8d", "heap160a32"])]
    return [dict(model="cap", configs=cfgs(["heap8d", "heap0d", "heap0n", "heap3n", "heap160", "heap160a32", "heap64n"], (R, D))), rnd(tier, ["heap8d", "heap160a32", "heap3n", "heap64n"], nvecs=3),
            dict(model="elem", configs=cfgs(["heap8d", "heap160a32", "heap3n"], (R, D))), dict(model="range", configs=cfgs(["heap8d", "heap160a32"], (R, D))),
            dict(model="shift", configs=cfgs(LAYOUTS_T, (R,)))]

def c08(tier):
    if tier == "quick":
        return [dict(model="clone", configs=cfgs(["heap8c", "fence24d", "heap3c", "heap0c", "fenceover3c", "fenceraw8c"], (R,))), dict(model="clonefixed", configs=cfgs(["stackn3", "stack8c"], (R,))),
                dict(model="long", configs=cfgs(["heap8c", "heap3c"], (R,))), rnd(tier, ["heap8c", "stack8c"])]
    return [rnd(tier, ["heap8c", "heap3c", "stack8c", "fence24d", "fenceover3c"], nvecs=3), dict(model="clone", configs=cfgs(["heap8c", "heap3c", "heap0c", "heap8css", "heap160", "fence24d", "fenceraw8c"], (R, D))),
            dict(model="clonefixed", configs=cfgs(["stackn3", "stack8c"], (R, D))), dict(model="long", configs=cfgs(["heap8c", "heap3c", "heap0c", "fence24d"], (R, D)))]
def c09(tier):
    if tier == "quick":
        return [dict(model="lazy", configs=cfgs(["heap8c", "heap160"], (R,))), dict(model="lazyf", configs=cfgs(["heap3c", "heap0c"], (R,))), rnd(tier, ["heap8c"])]
    return [dict(model="lazy", configs=cfgs(["heap8c", "heap160", "heap8css", "fence24d"], (R, D))), dict(model="clonefixed", configs=cfgs(["stackn3"], (R,)))]

def c17(tier):
    if tier == "quick":
        return [dict(model="raw", configs=cfgs(["heap8d", "heap8c", "heap0d", "fenceraw8c"], (R,))), dict(model="rawempty", configs=cfgs(["empty8d", "empty0c"], (R,))),
                rnd(tier, ["heap8c"])]
    return [dict(model="raw", configs=cfgs(["heap8d", "heap8c", "heap8css", "heap0d", "heap0c", "heap3n", "heap160", "fenceraw8c"], (R, D))),
            dict(model="rawempty", configs=cfgs(["empty8d", "empty0c"], (R, D)))]
def c04(tier):
    if tier == "quick":
        return [dict(model="wrong", configs=cfgs(["heap8d", "heap8c"], (R,)) + cfgs(["stack8c"], (R,)))]
    return [dict(model="wrong", configs=cfgs(["heap8d", "heap8c", "stack8c", "fence8d", "heap160", "heap3n"], (R, D)))]
def c12(tier):
    if tier == "quick":
        return [dict(model="spare", configs=cfgs(["heap8d", "heap3n", "fence160", "heap0d"], (R,))), dict(model="sparefixed", configs=cfgs(["stack24x3", "stackn3"], (R,))),
                dict(model="elem", configs=cfgs(["heap160a32", "heap64n", "heap1n"], (R,))),
                dict(model="place", shards=1, configs=cfgs(["heap32d", "heap64n", "stack24x3", "stackn3", "stack16x4", "stack32x4", "stack64x2", "empty8d", "fence160"], (R,)))]
    return [dict(model="spare", configs=cfgs(["heap8d", "heap3n", "heap1n", "heap16d", "heap32d", "heap64n", "heap160a32", "fence160", "fence3n", "heap0d"], (R, D))),
            dict(model="sparefixed", configs=cfgs(["stack24x3", "stackn3", "stack8x3p"], (R, D))),
            dict(model="elem", configs=cfgs(["heap160a32", "heap64n", "heap1n", "heap16d", "heap32d"], (R,))),
            dict(model="place", shards=1, configs=cfgs(["heap32d", "heap64n", "stack24x3", "stackn3", "stack16x4", "stack32x4", "stack64x2", "empty8d", "fence160"], (R, D)))]

def c19(tier):
    NA = False
    if tier == "quick":
        return [dict(model="fixed", configs=[("stack8x3p", R, NA)]), dict(model="elem", configs=[("stack24x3", R, NA)]),
                dict(model="clonefixed", configs=[("stack8c", R, NA), ("stackn3", R, NA)]),
                dict(model="place", shards=1, configs=[("stack32x4", R, NA), ("stack64x2", R, NA), ("stackn3", R, NA)])]
    return [dict(model="fixed", configs=[("stack8x3p", R, NA), ("stackn3", R, NA), ("stack24x3", D, NA)]),
            dict(model="place", shards=1, configs=[("stack16x4", R, NA), ("stack32x4", R, NA), ("stack64x2", R, NA), ("stackn3", R, NA), ("stack64x2", D, NA)]),
            dict(model="elem", configs=[("stack24x3", R, NA), ("stackn3", D, NA)]), dict(model="range", configs=[("stack24x3", R, NA)]),
            dict(model="clonefixed", configs=[("stack8c", R, NA), ("stackn3", R, NA), ("stack8c", D, NA)]),
            dict(model="cap", configs=[("fence8d", R, NA)]), dict(model="shift", configs=[("fence24d", R, NA)])]

PLAN = {
    "C16": dict(runner=probes.run_c16, level="model_checking", engine="tla-rules",
                technique="TLA+ loan rule model; TLC enumerates (method, conflicting statement) cases; each rendered as a Rust program + conflict-free control and decided by rustc",
                claim="The loan rule model (AnyVecBorrow.tla) states which statements are legal while a handle from each of 26 handle-producing "
                      "methods (erased and typed) holds a shared or exclusive loan: mutate / read / second exclusive / second shared / move / drop the "
                      "source, escape its scope, consume a by-value handle twice; every ordered pair of handles alive at once; every mutating method "
                      "(erased and typed) called through a shared reference / the shared typed view; plus second-level loans (borrows obtained through a mutable typed "
                      "view reused after a mutation through it, two simultaneous mutable paths, lazy clones outliving their source, items outliving "
                      "their iterator). TLC enumerates all cases; every case is compiled with its conflict-free control: the control must compile, a "
                      "must-reject program must fail with an ownership/borrow error, a legal one must compile.",
                rule="cases = all records of AnyVecBorrow!Cases; each is two compilations (program + control); distinct = (kind, method, statement)",
                note="Method table and program templates are transcribed from the public API by hand; a new handle-producing method is not covered until added. rustc is trusted."),
    "C19": dict(campaigns=c19, extra=probes.run_c19_extra, level="model_checking",
                claim="The replay harness is built a second time against default-features = false and replays the fixed-capacity, element-wise and "
                      "clone models on stack backends; TLC judges every event with the same contract as the default build (identical behaviour = "
                      "both satisfy the same exact contract). TLC-enumerated feature cases decide by compilation that Heap does not exist without "
                      "`alloc` while Stack/StackN/Empty do, and a freestanding #![no_std] program WITHOUT a global allocator that drives a stack "
                      "vector through the complete operation set must link and run (with a negative control: forcing the alloc feature must make "
                      "the link fail for lack of an allocator).",
                rule="cases = all transitions of the listed models on stack backends in the no-alloc build, plus the feature and link probes; "
                     "non-trivial = any operation at depth >= 2"),
    "C15": dict(runner=probes.run_c15, level="model_checking", engine="tla-rules",
                technique="TLA+ rule model of the auto-trait / constructor / method surface; TLC enumerates all cases; rustc verdicts compared",
                claim="The TLA+ rule model (AnyVecTraits.tla) derives from first principles which types may be Send/Sync and which constructors "
                      "and methods exist; TLC enumerates the whole space (8 constraint sets x 8 backends incl. four user backends that are !Send or "
                      "!Sync in builder or Mem x element classes x 16 public vector/view/handle/iterator types incl. the opaque typed drain / splice "
                      "iterators x {Send, Sync}; every constructor x constraint set x element class; clone/reserve/shrink/with_capacity availability, "
                      "erased and through the typed view) and every case is decided by rustc against "
                      "/repo's current tree: all Send/Sync queries in one compilation, one compile per must-compile / must-not-compile probe.",
                rule="cases = all records of AnyVecTraits!Cases (TLC states); every case is one compiler query; distinct = distinct (type, trait, constraint set, backend, element class)",
                note="The rule tables (which handle stands for which kind of reference) are transcribed from the public API by hand; rustc is trusted."),
    "C17": dict(campaigns=c17, level="model_checking",
                claim="Every state of the bounded model x into_raw_parts -> (field-wise RawParts::clone) -> from_raw_parts on Heap and on the "
                      "zero-capacity Empty backend, every constraint class exercised by the configurations, repeated and interleaved with every "
                      "element-wise operation (the rebuilt vector is kept apart in the exploration so every operation is replayed on it): TLC "
                      "judges that nothing is destroyed or (de)allocated, that the parts and their clone report the true length, capacity, layout, "
                      "type id and drop/clone functions, and that all further events match the contract. On a relocating user backend with a stateful, "
                      "logging builder the builder itself is followed: moved (never copied) through the round trip, dropped exactly once.",
                rule="cases = all transitions of the raw-parts models; non-trivial = raw_roundtrip at depth >= 2 and every operation on a rebuilt vector"),
    "C04": dict(campaigns=c04, level="model_checking",
                claim="Every state of the bounded model x a value of another runtime type (two types with identical size and alignment, one of a "
                      "different size) offered through wrapper and raw-pointer sources to push, insert(i), element swap (both orders) and as the "
                      "j-th item of a splice, plus downcast queries of the vector (ref/mut view), element references and removal handles for the "
                      "real type and five others: TLC judges panic-and-unchanged, the offered value destroyed once, validity after splice, and "
                      "downcast success exactly for the real type.",
                rule="cases = all transitions of the wrong-type model; non-trivial = a *_wrong or downcast_q action at depth >= 2"),
    "C12": dict(campaigns=c12, level="model_checking",
                claim="Every (len, capacity) state of the bounded model: after every step the typed slice, as_bytes and the erased iterator must "
                      "decode to the contract's elements (as_bytes length = len x size), the storage base must be aligned for the element type; "
                      "spare_bytes_mut / spare_capacity_mut must start exactly len x size bytes after the base and span (capacity - len) x size, and "
                      "values written through them become exactly the new tail after set_len; layouts include size 1/3 and alignment 16/32/64.",
                rule="cases = all transitions of the spare models and the elem model on over-aligned / odd-sized layouts; non-trivial = spare_write at depth >= 2"),
    "C08": dict(campaigns=c08, level="model_checking",
                claim="Every state of the bounded two-vector model x clone() (replacing the other vector), clone_empty and clone_empty_in on "
                      "{same, Heap, Stack, StackN, instrumented} target backends, on Cloneable constraint sets and heap, instrumented and fixed-"
                      "capacity source backends, followed by every single operation on the original and on the clone: TLC judges type/layout/"
                      "length, each source element cloned exactly once and in position, separate storage, independence of the two vectors, "
                      "and that the empty twin accepts, clones and destroys values.",
                rule="cases = all transitions of the clone models; non-trivial = clone_vec / ce_probe at depth >= 2 and every operation following one"),
    "C09": dict(campaigns=c09, level="model_checking",
                claim="Lazy clones of an element reference, of a removal handle and of a kept drained item, chain depth 1..3, copied and "
                      "consumed 0..k times by push / insert / splice / downcast, from every state of the bounded model: TLC judges that creating, "
                      "copying and dropping run no callbacks, that each consumption clones the ROOT source exactly once into the destination, "
                      "and that the source is unchanged.",
                rule="cases = all transitions of the lazy model; non-trivial = a lazy action at depth >= 2 (n = 0 consumptions are the silent-create/drop cases)"),
    "C10": dict(campaigns=c10, extra=probes.run_c10_extra, level="model_checking",
                claim="Every (len, capacity) state of one vector up to the bound x every reserve / reserve_exact / shrink_to_fit / shrink_to / "
                      "with_capacity request 0..bound and at usize::MAX-2..usize::MAX (erased and typed), interleaved with push/pop/clear, is "
                      "replayed on Heap and on the instrumented relocating backend; TLC judges len<=capacity, the >= promises, exactness of "
                      "heap shrinking, panics for unrepresentable requests, and that a satisfied request touches neither capacity, block nor allocator.",
                rule="cases = all transitions of the capacity model; non-trivial = a capacity call at depth >= 2"),
    "C11": dict(campaigns=c11, extra=probes.run_c11_extra, level="model_checking",
                claim="Fixed-capacity model (capacity 3 / 2): every element-wise, drain and splice transition whose result length is below, at and one "
                      "above the capacity, replayed on Stack<SIZE> and StackN<N,SIZE>; TLC judges the capacity formula, behaviour identical to the "
                      "contract used for the heap, panic-and-unchanged for push/insert beyond capacity, validity after splice beyond it, and zero "
                      "allocator events (instrumented global allocator) during every call. The capacity formula of Stack<SIZE> and the build rule "
                      "of StackN<N,SIZE> (construction panics exactly when N elements do not fit) are judged by StackGrid.tla on a grid of SIZE and N "
                      "around multiples of the element size (54 instantiations, element sizes 0, 3, 8, 24).",
                rule="cases = all transitions of the fixed-capacity and elem models on stack backends; non-trivial = any operation at depth >= 2"),
    "C05": dict(campaigns=c05, level="model_checking",
                claim="All transitions of the element-wise, range, layout-sweep and capacity models replayed on a user-defined backend that relocates on "
                      "every capacity change, places every block against an inaccessible page, poison-fills fresh capacity, keeps released blocks "
                      "inaccessible and guards the front with canaries (and on Heap under a global allocator with the same features): a fault "
                      "kills the replay process and is reported with the running case; TLC judges decoded contents (poison or stale bytes decode as "
                      "garbage), block size = capacity x element size, build-once-with-layout and release-once.",
                rule="cases = all transitions of the listed models on fence/heap configurations; non-trivial = any operation at depth >= 2",
                assumptions=["a read inside the current capacity of a never-written slot whose value is then discarded is not observable (DESIGN.md section 9)"]),
    "C18": dict(campaigns=c18, level="model_checking",
                claim="All transitions of the capacity, element-wise and range models on Heap under the instrumented global allocator: every "
                      "dealloc/realloc is checked against the live block's layout, every request for layout validity, after every step the block "
                      "found at the vector's base pointer must have exactly capacity x size bytes and the element alignment (none when that is zero), "
                      "live blocks = vectors with non-zero capacity, and after teardown no block is left.",
                rule="cases = all transitions of the listed models on heap configurations; non-trivial = an operation at depth >= 2"),
    "C06": dict(campaigns=c06, level="fault_enumeration",
                claim="For every transition of the bounded element-wise and range models whose fault-free replay invoked user code N>=1 times "
                      "(element Drop, element Clone, replacement-iterator next), the case is re-run N times with the k-th invocation panicking; "
                      "TLC judges the state after the unwind against ruling A4 of the contract (everything visible alive, intact, once; no identity "
                      "destroyed twice; what disappeared is leaked), then a health probe (release outstanding handles, push, read, clear every "
                      "vector, drop extracted values) and a full teardown are judged as ordinary events from the adopted state. In addition long "
                      "random histories on large vectors run with a share of their steps faulted the same way; the history continues from the adopted state.",
                rule="evaluations = events judged (fault-free events, faulted events, probe events); fault_runs = number of (transition, k) runs; "
                     "non-trivial = a transition that invoked user code at least once at depth >= 2; distinct = (action, config, profile)"),
    "C03": dict(campaigns=c03, level="model_checking",
                claim="Ownership accounting (identity registry in the element type's own Drop/Clone) is judged by TLC on every event of the "
                      "element-wise, range and three-vector exchange models: every identity in exactly one place, every destruction of a live "
                      "identity exactly once, the step's drop callbacks equal to the contract's, and after a teardown of everything only "
                      "identities the contract counts as leaked stay alive. Zero-sized and no-drop layouts are judged by count/value.",
                rule="cases = all transitions of the elem, range and xchg models; every event is followed by a teardown of all vectors, "
                     "handles and extracted values; non-trivial = any operation instance at depth >= 2; distinct = (action, config, profile)"),
    "C07": dict(campaigns=c07, level="model_checking",
                claim="Every forget transition of the bounded models (removal handle forgotten; drain/splice iterator forgotten after every "
                      "front/back consumption state; a yielded item forgotten) is replayed and judged against the leak rule of the contract "
                      "(prefix unchanged, tail a duplicate-free subset of the former tail, nothing handed-out or destroyed visible), then "
                      "every further single operation of the alphabet and a full teardown are judged from the adopted state.",
                rule="cases = all transitions of the elem and range models; non-trivial = a forgetting step (handle, iterator or item) at depth >= 2 "
                     "- the follow-up operations after a forget are the ordinary transitions of the models from the post-forget states"),
    "C13": dict(campaigns=c13, level="model_checking",
                claim="Every accessor (get/at/get_mut/at_mut, typed and erased, indices 0..=len+1), every mutation path (ElementMut, byte view, "
                      "typed reference, typed slice, iter_mut, removal handle) and every iterator item is replayed; TLC judges the returned "
                      "element, its reported type/size, and that after every step the typed slice, the byte view and the erased iterator "
                      "decode to the same sequence which equals the contract state.",
                rule="cases = all transitions of the elem and iter models; non-trivial = get/mutate/hmutate/iter_next instance at depth >= 2"),
    "C02": dict(campaigns=c02, level="model_checking",
                claim="Every transition of the bounded range model (drain/splice begin in all nine RangeBounds forms over every (start,end) "
                      "around and at the boundary and at usize::MAX, every front/back consumption step with every per-item sink, iterator "
                      "dropped or forgotten at every stage, replacement lengths 0..k from every source kind, typed and erased) is replayed on "
                      "the real crate and judged by TLC against Vec::drain / Vec::splice semantics.",
                rule="cases = all transitions of the bounded range model; non-trivial = a range operation instance at depth >= 2; "
                     "distinct = distinct (action, configuration, profile) triples"),
    "C14": dict(campaigns=c14, extra=probes.run_c14_extra, level="model_checking",
                claim="Every next/next_back step (and clone of shared iterators) from every cursor state of iter, iter_mut, typed iterators, "
                      "drain and splice inside the bound is replayed and its size_hint/len and yielded element judged by TLC; "
                      "calls after exhaustion are the self-loop transitions of the model. In addition Apalache discharges, for ranges of ANY "
                      "length, that the cursor invariant of IterCursor.tla (exact size hint, ascending front / descending back positions, no "
                      "element from both ends, fused) is inductive - a design-level, unbounded argument reported in the evidence.",
                rule="cases = all transitions of the iterator and range models; non-trivial = an iterator step at depth >= 2; "
                     "distinct = distinct (action, configuration, profile) triples"),
    "C01": dict(campaigns=c01, level="model_checking",
                claim="Every transition of the bounded two-vector contract model (element-wise alphabet: every index 0..=len+1, every "
                      "value source and sink kind, typed/erased/mixed paths) is replayed on the real crate on several element layouts "
                      "and both build profiles; TLC judges each recorded event against the Vec-equivalent contract. Exhaustive inside "
                      "the length bound, which by induction over the state graph covers every history inside it.",
                rule="every transition of the bounded contract model (TLC, shape VIEW) is one case: the action path that reaches it "
                     "is replayed on the real crate per configuration and the recorded event is judged by the TLA+ contract; "
                     "non-trivial = an element-wise operation instance (op, index class, source/sink kind) applied at depth >= 2 "
                     "(a non-initial state); distinct = distinct (action, configuration, profile) triples"),
}

NOT_YET = {}

COMMON_ASSUMPTIONS = [
    "exhaustive only inside the stated model bounds (see coverage.models); beyond them nothing is claimed",
    "projection completeness: len, capacity, the decoded bytes of [0,len), handle cursors and outstanding values determine future behaviour; content of spare slots is not projected (DESIGN.md 5.3)",
    "the harness drives the public API only (no hooks in /repo) and is trusted to log faithfully; its replays are checked for determinism",
    "TLC, the Json/IOUtils community modules and rustc are trusted",
]

ELEM_OPS = {"push", "insert", "pop_begin", "remove_begin", "swap_remove_begin", "consume", "hmutate", "tpop", "tremove",
            "tswap_remove", "clear", "get", "mutate", "ext_drop"}
RANGE_OPS = {"drain_begin", "splice_begin", "next", "item_consume", "range_drop", "range_forget"}
ITER_OPS = {"iter_begin", "iter_next", "iter_clone", "iter_end"}

def _ops_for(pid):
    return {"C01": ELEM_OPS, "C02": RANGE_OPS, "C14": ITER_OPS | {"next"}, "C13": {"get", "mutate", "hmutate", "iter_next"},
            "C07": {"consume", "next", "item_consume", "range_forget"}}.get(pid, ELEM_OPS | RANGE_OPS | ITER_OPS)

def nontrivial_acts(pid, nodes):
    """distinct action instances (as canonical JSON) of the property's operation class occurring at depth >= 2"""
    ops = _ops_for(pid)
    out = set()
    for nid, (par, act) in nodes.items():
        if par == 0 or act["op"] not in ops:
            continue
        if pid == "C07" and not (act["op"] == "range_forget" or (isinstance(act.get("sink"), dict) and act["sink"]["k"] == "forget")):
            continue
        out.add(json.dumps(act, sort_keys=True))
    return out
