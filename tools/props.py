"""Which bounded model, which harness configurations and which non-triviality rule serve which property."""
import json

ELEM_ALPHA = ["push", "insert", "pop", "remove", "swap_remove", "typed", "clear", "get", "mutate", "hmutate", "ext_drop", "forget"]

def m_elem(tier):
    return dict(alpha=ELEM_ALPHA, MaxLen=3 if tier == "quick" else 4, MaxExt=1, MaxDepth=40)

MODELS = {
    "elem": m_elem,
}

R, D = "release", "dev"
def cfgs(names, profiles=(R,), alloc=True):
    return [(n, p, alloc) for n in names for p in profiles]

def c01(tier):
    if tier == "quick":
        return [dict(model="elem", configs=cfgs(["heap8d", "heap3n"], (R,)) + cfgs(["heap160"], (D,)))]
    return [dict(model="elem", configs=cfgs(["heap8d", "heap3n", "heap160", "heap0d"], (R, D)))]

PLAN = {
    "C01": dict(campaigns=c01, level="model_checking",
                claim="Every transition of the bounded two-vector contract model (element-wise alphabet: every index 0..=len+1, every "
                      "value source and sink kind, typed/erased/mixed paths) is replayed on the real crate on several element layouts "
                      "and both build profiles; TLC judges each recorded event against the Vec-equivalent contract. Exhaustive inside "
                      "the length bound, which by induction over the state graph covers every history inside it.",
                rule="every transition of the bounded contract model (TLC, shape VIEW) is one case: the action path that reaches it "
                     "is replayed on the real crate per configuration and the recorded event is judged by the TLA+ contract; "
                     "non-trivial = an element-wise operation instance (op, index class, source/sink kind) applied at depth >= 2 "
                     "(a non-initial state); distinct = distinct (action, configuration, profile) triples"),
}

NOT_YET = {}

COMMON_ASSUMPTIONS = [
    "exhaustive only inside the stated model bounds (see coverage.models); beyond them nothing is claimed",
    "projection completeness: len, capacity, the decoded bytes of [0,len), handle cursors and outstanding values determine future behaviour; content of spare slots is not projected (DESIGN.md 5.3)",
    "the harness drives the public API only (no hooks in /repo) and is trusted to log faithfully; its replays are checked for determinism",
    "TLC, the Json/IOUtils community modules and rustc are trusted",
]

ELEM_OPS = {"push", "insert", "pop_begin", "remove_begin", "swap_remove_begin", "consume", "hmutate", "tpop", "tremove",
            "tswap_remove", "clear", "get", "mutate", "ext_drop"}
RANGE_OPS = {"drain_begin", "splice_begin", "next", "item_consume", "range_drop", "range_forget"}
ITER_OPS = {"iter_begin", "iter_next", "iter_clone", "iter_end"}

def _ops_for(pid):
    return {"C01": ELEM_OPS, "C02": RANGE_OPS, "C14": ITER_OPS | {"next"}, "C13": {"get", "mutate", "hmutate", "iter_next"},
            "C07": {"consume", "next", "item_consume", "range_forget"}}.get(pid, ELEM_OPS | RANGE_OPS | ITER_OPS)

def nontrivial_acts(pid, nodes):
    """distinct action instances (as canonical JSON) of the property's operation class occurring at depth >= 2"""
    ops = _ops_for(pid)
    out = set()
    for nid, (par, act) in nodes.items():
        if par == 0 or act["op"] not in ops:
            continue
        if pid == "C07" and not (act["op"] == "range_forget" or (isinstance(act.get("sink"), dict) and act["sink"]["k"] == "forget")):
            continue
        out.add(json.dumps(act, sort_keys=True))
    return out
