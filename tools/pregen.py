#!/usr/bin/env python3
import sys, os
sys.path.insert(0, os.path.dirname(os.path.abspath(__file__)))
import vlib, props
tier = sys.argv[1] if len(sys.argv) > 1 else "quick"
done = set()
for pid, pl in props.PLAN.items():
    if "campaigns" not in pl: continue
    for camp in pl["campaigns"](tier):
        if "model" not in camp: continue      # random-history campaigns have no pre-generated cases
        m = camp["model"]
        if m in done: continue
        done.add(m)
        model = props.MODELS[m](tier) if callable(props.MODELS[m]) else props.MODELS[m]
        cases, st = vlib.gen_cases(m + "-" + tier, model)
        print("model %s (%s): %d distinct states, %d transitions -> %s" % (m, tier, st.get("distinct"), st.get("transitions"), cases))
