#!/bin/sh
# usage: tools/regress_seeds.sh [lanes]   -- every seeded change through the quick check of its property (scratch copies; /repo untouched)
# prints one line per seed: <name> <property> rc=<rc>; a seed whose check does not exit 1 is a regression of the machinery
L=${1:-4}
cd /verif
mkdir -p work/regress
ls seeded | sort > work/regress/all.txt
i=0
while [ $i -lt $L ]; do
  ( awk -v l=$L -v k=$i 'NR % l == k' work/regress/all.txt | while read s; do
      p=$(python3 -c "import json;print(json.load(open('/verif/seeded/$s/meta.json'))['property'])")
      tools/parseed.sh seeded/$s/patch.diff rg_$s $p > work/regress/$s.log 2>&1
      echo "$s $p $(grep -o 'rc=[0-9]*' work/regress/$s.log | head -1)" >> work/regress/summary.txt
    done ) &
  i=$((i+1))
done
wait
sort work/regress/summary.txt
