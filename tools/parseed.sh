#!/bin/sh
# usage: tools/parseed.sh <patch.diff> <name> <Cxx> [<Cxx>...]
# Like tryseed.sh, but leaves /repo alone: the patch is applied to a scratch worktree of /repo under /tmp and the
# checks run from a scratch copy of /verif pointed at it (VERIF_REPO + harness path), so several seeds can be tried
# side by side.  Only a test aid for the seeded changes; registered checks never use it.
P="$(realpath $1)"; N="$2"; shift 2
S=/tmp/ps_$N
rm -rf $S; mkdir -p $S
git -C /repo worktree add -q --detach $S/repo HEAD || exit 3
( cd $S/repo && git apply "$P" ) || { echo "PATCH DOES NOT APPLY: $N"; git -C /repo worktree remove --force $S/repo; rm -rf $S; exit 3; }
mkdir $S/verif
( cd /verif && tar cf - --exclude=./harness/target --exclude=./harness/target-noalloc --exclude=./work --exclude=./replays --exclude=./.git --exclude=./probes/target --exclude=./probes/nostd/target --exclude=./seeded . ) | ( cd $S/verif && tar xf - )
mkdir -p $S/verif/work
cd $S/verif
sed -i "s#path = \"/repo\"#path = \"$S/repo\"#" harness/Cargo.toml probes/nostd/Cargo.toml
export VERIF_REPO=$S/repo
for c in "$@"; do
  ./check $c quick > $S/$c.out 2>&1; rc=$?
  echo "=== $N $c rc=$rc  $(grep -c '^VIOLATION' $S/$c.out) violation lines"
  grep -A1 '^VIOLATION' $S/$c.out | head -6 | cut -c1-260; grep -E "TOOL ERROR" -A6 $S/$c.out | head -12 | cut -c1-400
  mkdir -p /verif/work/parseed; cp $S/$c.out /verif/work/parseed/$N.$c.out
done
cd /; git -C /repo worktree remove --force $S/repo; rm -rf $S; git -C /repo worktree prune
