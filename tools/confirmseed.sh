#!/bin/sh
# usage: tools/confirmseed.sh <scratch worktree of /repo with out/1/{patch.diff,demo.rs|demo.sh}>
# Confirms a sub-agent's seeded change myself: suite passes with the patch, demonstration fails with it and passes without.
W="$1"; O="$W/out/1"
cd "$W" || exit 3
git checkout -q -- . ; rm -f tests/seed_demo.rs
export CARGO_TARGET_DIR="$W/target" CARGO_NET_OFFLINE=true
demo() {
  if [ -f "$O/demo.sh" ]; then sh "$O/demo.sh" "$W" > "$W/demo.log" 2>&1; echo $?
  else cp "$O/demo.rs" tests/seed_demo.rs; cargo test --offline --test seed_demo > "$W/demo.log" 2>&1; r=$?; rm -f tests/seed_demo.rs; echo $r; fi
}
git apply "$O/patch.diff" || { echo "patch does not apply"; exit 3; }
S=$(cargo test --workspace --no-fail-fast --offline 2>&1 | grep -E "^test result" | awk '{p+=$4; f+=$6} END {print p" passed "f" failed"}')
D1=$(demo)
git checkout -q -- . ; rm -f tests/seed_demo.rs
D0=$(demo)
git checkout -q -- . ; rm -f tests/seed_demo.rs
echo "suite_with_patch: $S | demo_with_patch rc=$D1 | demo_without_patch rc=$D0"
