#!/usr/bin/env python3
"""Shared machinery for ./check: build the harness from /repo's working tree, generate cases with TLC,
replay them on the real crate, validate the recorded event trees with TLC, classify what TLC reports."""
import hashlib, json, os, re, shutil, subprocess, sys, time, glob, signal
from concurrent.futures import ThreadPoolExecutor

ROOT = os.path.dirname(os.path.dirname(os.path.abspath(__file__)))
SPEC = os.path.join(ROOT, "spec")
HARNESS = os.path.join(ROOT, "harness")
WORK = os.path.join(ROOT, "work")
GEN = os.path.join(ROOT, "gen")
REPLAYS = os.path.join(ROOT, "replays")
EVIDENCE = os.path.join(ROOT, "evidence")
sys.path.insert(0, os.path.join(ROOT, "tools"))
import gencases

class ToolError(Exception):
    pass

def sh(cmd, **kw):
    return subprocess.run(cmd, stdout=subprocess.PIPE, stderr=subprocess.STDOUT, text=True, **kw)

# ----------------------------------------------------------------------------------------------------
# harness build (always from /repo's current working tree: path dependency, cargo decides what is stale)
_built = {}
def build_harness(profile="release", alloc=True):
    key = (profile, alloc)
    if key in _built:
        return _built[key]
    tdir = "target" if alloc else "target-noalloc"
    cmd = ["cargo", "build", "--offline", "--target-dir", tdir]
    if profile == "release":
        cmd.append("--release")
    if not alloc:
        cmd.append("--no-default-features")
    env = dict(os.environ, CARGO_NET_OFFLINE="true")
    r = subprocess.run(cmd, cwd=HARNESS, stdout=subprocess.PIPE, stderr=subprocess.STDOUT, text=True, env=env)
    binp = os.path.join(HARNESS, tdir, "release" if profile == "release" else "debug", "avharness")
    if r.returncode != 0 or not os.path.exists(binp):
        _built[key] = (None, r.stdout)
    else:
        _built[key] = (binp, r.stdout)
    return _built[key]

# ----------------------------------------------------------------------------------------------------
# models: bounded instances of MC_AnyVec
def _set(xs):
    return "{" + ",".join('"%s"' % x for x in xs) + "}"

def mc_cfg_text(m):
    inv = m.get("invariants", ["OwnershipInv", "HandleInv"])
    lines = ["SPECIFICATION Spec", "CONSTANTS",
             "  Vecs = " + _set(m.get("vecs", ["a", "b"])),
             "  Cfg <- " + m.get("cfg", "CfgHeap"),
             "  Alpha = " + _set(m["alpha"]),
             "  MaxLen = %d" % m.get("MaxLen", 3),
             "  MaxLenB = %d" % m.get("MaxLenB", m.get("MaxLen", 3)),
             "  MaxExt = %d" % m.get("MaxExt", 1),
             "  MaxCap = %d" % m.get("MaxCap", 1000000000),
             "  MaxLazyDepth = %d" % m.get("MaxLazyDepth", 1),
             "  MaxLazyN = %d" % m.get("MaxLazyN", 1),
             "  PushManyN = %d" % m.get("PushManyN", 0),
             "  OneHandle = %s" % ("TRUE" if m.get("OneHandle", False) else "FALSE"),
             "  MaxOut = %d" % m.get("MaxOut", 0),
             "  MaxRepl = %d" % m.get("MaxRepl", 0),
             "  MaxIters = %d" % m.get("MaxIters", 1),
             "  Srcs = " + _set(m.get("srcs", ["wrapper", "raw", "typed"])),
             "  SinkKinds = " + _set(m.get("sinks", ["drop", "ext", "push", "insert", "forget"])),
             "  Forms = " + _set(m.get("forms", [])),
             "VIEW View", "ACTION_CONSTRAINT Emit",
             "INVARIANT " + " ".join(inv), "PROPERTY LeakOnlyBy", "CHECK_DEADLOCK FALSE"]
    for k, v in m.get("extra_constants", {}).items():
        lines.insert(2, "  %s = %s" % (k, v))
    return "\n".join(lines) + "\n"

def spec_hash():
    """only the modules the exploration depends on (the judge TraceAnyVec.tla does not change the cases)"""
    h = hashlib.sha256()
    for f in ("AnyVec.tla", "VecOps.tla", "MC_AnyVec.tla"):
        h.update(open(os.path.join(SPEC, f), "rb").read())
    return h.hexdigest()[:12]

def gen_cases(name, model, force=False):
    """cases for a model; cached in gen/ by (model text, spec files) since they do not depend on /repo"""
    os.makedirs(GEN, exist_ok=True)
    text = mc_cfg_text(model)
    key = hashlib.sha256((text + spec_hash()).encode()).hexdigest()[:12]
    cases = os.path.join(GEN, "%s-%s.cases" % (name, key))
    statf = cases + ".stats.json"
    if os.path.exists(cases) and os.path.exists(statf) and not force:
        return cases, json.load(open(statf))
    wd = os.path.join(WORK, "mc-%s-%s" % (name, key))
    stats = gencases.run(SPEC, text, cases + ".tmp", wd, workers=8, timeout=model.get("timeout", 3000))
    if stats["rc"] != 0 or stats["errors"]:
        log = open(os.path.join(wd, "tlc.log")).read()[-3000:]
        raise ToolError("TLC exploration of model %s failed (rc=%s): %s\n%s" % (name, stats["rc"], stats["errors"][:3], log))
    for old in glob.glob(os.path.join(GEN, "%s-*.cases" % name)):
        if old != cases:
            for f in (old, old + ".stats.json"):
                try: os.remove(f)
                except FileNotFoundError: pass
    os.replace(cases + ".tmp", cases)
    stats["model"] = name
    json.dump(stats, open(statf, "w"))
    shutil.rmtree(wd, ignore_errors=True)
    return cases, stats

# ----------------------------------------------------------------------------------------------------
def load_cases(path):
    nodes = {}
    with open(path) as f:
        for line in f:
            j = json.loads(line)
            nodes[j["id"]] = (j["parent"], j["act"])
    return nodes

def path_of(nodes, nid):
    p = []
    while nid != 0:
        par, act = nodes[nid]
        p.append(act)
        nid = par
    p.reverse()
    return p

# ----------------------------------------------------------------------------------------------------
def run_replay_shard(binp, config, cases, out, shard, nshards, nvecs, timeout=1800, faults=False):
    """run one harness shard; on a crash (signal) record the running case, skip it and rerun"""
    skip = []
    crashes = []
    for attempt in range(7):
        cmd = [binp, "replay", "--config", config, "--cases", cases, "--out", out, "--shard", "%d/%d" % (shard, nshards),
               "--nvecs", str(nvecs)]
        if faults:
            cmd.append("--faults")
        if skip:
            cmd += ["--skip", ",".join(map(str, skip))]
        try:
            r = subprocess.run(cmd, stdout=subprocess.PIPE, stderr=subprocess.STDOUT, text=True, timeout=timeout)
        except subprocess.TimeoutExpired:
            raise ToolError("harness timeout: " + " ".join(cmd))
        last = ""
        try:
            lines = open(out + ".run").read().split("\n")
            lines = [l for l in lines if l]
            last = lines[-1] if lines else ""
        except FileNotFoundError:
            pass
        if r.returncode == 0 and last.startswith("DONE"):
            _, n, nondet = last.split()
            nd = [tuple(map(int, l.split()[1:3])) for l in lines if l.startswith("NONDET")]
            fr = [int(l.split()[1]) for l in lines if l.startswith("FAULTS")]
            return {"file": out, "nodes": int(n), "nondet": nd, "crashes": crashes, "log": r.stdout[-2000:], "fault_runs": sum(fr)}
        if r.returncode == 3:
            raise ToolError("harness driver error: " + r.stdout[-2000:])
        if r.returncode == 4 and last == "INIT":
            # constructing the empty vectors of this configuration panicked: data about the code under test
            crashes.append({"case": 0, "rc": 4, "out": r.stdout[-500:], "init": True})
            return {"file": out, "nodes": 0, "nondet": [], "crashes": crashes, "log": "", "fault_runs": 0, "aborted": True}
        # crashed (signal / abort): the last marker names the running case
        if last and not last.startswith("DONE"):
            cid = int(last)
            crashes.append({"case": cid, "rc": r.returncode, "out": r.stdout[-500:]})
            skip.append(cid)
            if r.returncode == -26:
                # CPU watchdog: the code under test did not terminate in this case.  Every further hang costs the full watchdog
                # time, so the rest of this shard is given up (the check fails anyway)
                return {"file": out, "nodes": 0, "nondet": [], "crashes": crashes, "log": "", "fault_runs": 0, "aborted": True}
            continue
        raise ToolError("harness failed rc=%s: %s" % (r.returncode, r.stdout[-2000:]))
    # the code under test keeps killing the replay process: report what was seen, give up on the rest of this shard
    return {"file": out, "nodes": 0, "nondet": [], "crashes": crashes, "log": "", "fault_runs": 0, "aborted": True}

_tv_dir_ready = {}
def tv_dir(nvecs):
    d = os.path.join(WORK, "tv%d" % nvecs)
    if d in _tv_dir_ready:
        return d
    os.makedirs(d, exist_ok=True)
    for f in glob.glob(os.path.join(SPEC, "*.tla")):
        shutil.copy(f, d)
    names = ["a", "b", "c"][:nvecs]
    open(os.path.join(d, "Trace.cfg"), "w").write(
        "SPECIFICATION TSpec\nCONSTANTS\n  Vecs = %s\n  Cfg <- TraceCfg\nCHECK_DEADLOCK FALSE\n" % _set(names))
    _tv_dir_ready[d] = True
    return d

def validate_shard(trace_file, nvecs, expect_nodes, timeout=1800):
    d = tv_dir(nvecs)
    md = trace_file + ".md"
    env = dict(os.environ, TRACE=trace_file, JAVA_TOOL_OPTIONS="-Xss512m -Xmx3g")
    cmd = ["timeout", str(timeout), "tlc", "-workers", "1", "-metadir", md, "-cleanup", "-noGenerateSpecTE",
           "-config", "Trace.cfg", "TraceAnyVec.tla"]
    r = subprocess.run(cmd, cwd=d, stdout=subprocess.PIPE, stderr=subprocess.STDOUT, text=True, env=env)
    shutil.rmtree(md, ignore_errors=True)
    viols = []
    distinct = None
    err = []
    for line in r.stdout.split("\n"):
        if line.startswith('"{'):
            viols.append(json.loads(json.loads(line)))
        m = re.search(r"(\d+) states generated, (\d+) distinct states found, (\d+) states left", line)
        if m:
            distinct = int(m.group(2))
        if "Error" in line or "Exception" in line:
            err.append(line)
    if r.returncode != 0 or err or distinct is None:
        raise ToolError("TLC trace validation failed on %s rc=%s: %s\n%s" % (trace_file, r.returncode, err[:5], r.stdout[-3000:]))
    if distinct != expect_nodes + 1:
        raise ToolError("TLC consumed %d of %d trace nodes in %s" % (distinct - 1, expect_nodes, trace_file))
    return viols, distinct

def campaign(binp, config, cases, tag, nvecs=2, nshards=8, keep=False, faults=False):
    """replay all cases of a trie on one (binary, config) and validate; returns dict with violations"""
    os.makedirs(WORK, exist_ok=True)
    outs = [os.path.join(WORK, "ev-%s.%d" % (tag, i)) for i in range(nshards)]
    t0 = time.time()
    with ThreadPoolExecutor(max_workers=nshards) as ex:
        reps = list(ex.map(lambda i: run_replay_shard(binp, config, cases, outs[i], i, nshards, nvecs, faults=faults), range(nshards)))
    t1 = time.time()
    with ThreadPoolExecutor(max_workers=nshards) as ex:
        vals = list(ex.map(lambda i: ([], 0) if reps[i].get("aborted") else validate_shard(outs[i], nvecs, reps[i]["nodes"]), range(nshards)))
    t2 = time.time()
    seen = set()
    viols = []
    for v, _ in vals:
        for x in v:
            k = json.dumps(x, sort_keys=True)
            if k not in seen:
                seen.add(k)
                viols.append(x)
    crashes = [c for r in reps for c in r["crashes"]]
    nondet = [x for r in reps for x in r["nondet"]]
    # events of violating nodes, for the replay files
    want = {v["node"] for v in viols}
    events = {}
    header = None
    for o, r in zip(outs, reps):
        if r.get("aborted"):
            if header is None:
                try: header = json.loads(open(o).readline())
                except Exception: pass
            continue
        with open(o) as f:
            for k, line in enumerate(f):
                if k == 0:
                    header = json.loads(line)
                    continue
                m = re.search(r'"id":(\d+),', line)
                if m and int(m.group(1)) in want and int(m.group(1)) not in events:
                    events[int(m.group(1))] = json.loads(line)
    nodes_judged = len({None})  # placeholder
    total_nodes = sum(r["nodes"] for r in reps)
    if not keep:
        for o in outs:
            for f in (o, o + ".run"):
                try: os.remove(f)
                except FileNotFoundError: pass
    return {"viols": viols, "crashes": crashes, "nondet": nondet, "events": events, "header": header,
            "fault_runs": sum(r.get("fault_runs", 0) for r in reps),
            "nodes": total_nodes, "t_replay": round(t1 - t0, 1), "t_validate": round(t2 - t1, 1)}


def random_campaign(binp, config, tag, nvecs, seed, traces, steps, maxlen, faultpct=0):
    """direction B: `traces` long random histories on one (binary, config), each a chain of events judged by TLC"""
    os.makedirs(WORK, exist_ok=True)
    outs = [os.path.join(WORK, "rnd-%s.%d" % (tag, k)) for k in range(traces)]
    t0 = time.time()
    def one(k):
        cmd = [binp, "random", "--config", config, "--seed", str(seed * 1000 + k + 1), "--steps", str(steps), "--maxlen", str(maxlen),
               "--nvecs", str(nvecs), "--out", outs[k]]
        if faultpct:
            cmd += ["--faultpct", str(faultpct)]
        r = subprocess.run(cmd, stdout=subprocess.PIPE, stderr=subprocess.STDOUT, text=True)
        last = ""
        try:
            lines = [l for l in open(outs[k] + ".run").read().split("\n") if l]
            last = lines[-1] if lines else ""
        except FileNotFoundError:
            pass
        if r.returncode == 0 and last.startswith("DONE"):
            return {"nodes": steps, "crash": None}
        if r.returncode == 3:
            raise ToolError("harness driver error: " + r.stdout[-1000:])
        return {"nodes": 0, "crash": {"case": int(last) if last.isdigit() else 0, "rc": r.returncode, "out": r.stdout[-300:], "trace": k, "init": last == "INIT"}}
    with ThreadPoolExecutor(max_workers=min(8, traces)) as ex:
        reps = list(ex.map(one, range(traces)))
    t1 = time.time()
    with ThreadPoolExecutor(max_workers=min(8, traces)) as ex:
        vals = list(ex.map(lambda k: ([], 0) if reps[k]["crash"] else validate_shard(outs[k], nvecs, steps), range(traces)))
    t2 = time.time()
    viols, events, paths, header, crashes = [], {}, {}, None, []
    for k in range(traces):
        acts = []
        want = {v["node"] for v in vals[k][0]}
        crash_at = reps[k]["crash"]["case"] if reps[k]["crash"] else None
        if want or crash_at is not None or header is None:
            try:
                with open(outs[k]) as f:
                    for i, line in enumerate(f):
                        if i == 0:
                            header = header or json.loads(line); continue
                        if not (want or crash_at is not None):
                            break
                        try:
                            e = json.loads(line)
                        except ValueError:
                            if crash_at is not None:
                                break            # the process died while writing this line
                            raise ToolError("unreadable event line %d in %s" % (i, outs[k]))
                        acts.append(e["act"])
                        if e["id"] in want:
                            key = (k, e["id"])
                            events[key] = e; paths[key] = list(acts)
            except FileNotFoundError:
                pass
        for v in vals[k][0]:
            viols.append({"node": (k, v["node"]), "viol": v["viol"]})
        if reps[k]["crash"]:
            c = dict(reps[k]["crash"]); c["path"] = acts[:c["case"]] if acts else []
            crashes.append(c)
        for f in (outs[k], outs[k] + ".run"):
            try: os.remove(f)
            except FileNotFoundError: pass
    return {"viols": viols, "events": events, "paths": paths, "header": header, "crashes": crashes, "nodes": sum(r["nodes"] for r in reps),
            "t_replay": round(t1 - t0, 1), "t_validate": round(t2 - t1, 1)}
