#!/bin/sh
# Build the framework from files on disk only (offline): the replay harness in both profiles and the case tries
# of the quick models (TLC).  Everything a check needs beyond this it rebuilds itself.
set -e
cd "$(dirname "$0")"
export CARGO_NET_OFFLINE=true
(cd harness && cargo build --offline --release 2>&1 | tail -1 && cargo build --offline 2>&1 | tail -1)
python3 tools/pregen.py quick
